//go:build verif

// Package verifsim is the deterministic-simulation kernel that /verif/check
// injects into golang/perf builds with -overlay (it is never committed to
// /repo). One integer seeds a choice tape; every decision of a simulated run
// (workload, schedule, chunking, faults, map orders, clock steps) is one draw
// from that tape, so a tape is an exactly repeatable execution and can be
// minimised and replayed.
package verifsim

import (
	"fmt"
)

// splitmix64
type rng struct{ s uint64 }

func (r *rng) next() uint64 {
	r.s += 0x9e3779b97f4a7c15
	z := r.s
	z = (z ^ (z >> 30)) * 0xbf58476d1ce4e5b9
	z = (z ^ (z >> 27)) * 0x94d049bb133111eb
	return z ^ (z >> 31)
}

// Mix derives a run seed from the check seed, a property/lane name and a run index.
func Mix(seed uint64, name string, idx uint64) uint64 {
	r := rng{seed}
	h := r.next()
	for i := 0; i < len(name); i++ {
		h = (h ^ uint64(name[i])) * 0x100000001b3
	}
	r.s = h ^ (idx * 0x9e3779b97f4a7c15)
	r.next()
	return r.next()
}

// Tape is the single source of choices in a run.
type Tape struct {
	vals   []uint32
	pos    int
	replay bool
	r      rng
	// Draws counts all draws (including those past the end in replay mode).
	Draws int
	// strict makes replay panic on a label mismatch (debug aid).
	labels []string
	keepLabels bool
}

// NewTape returns a recording tape seeded with seed.
func NewTape(seed uint64) *Tape { return &Tape{r: rng{seed}} }

// ReplayTape returns a tape that replays vals (value mod n; 0 once exhausted).
func ReplayTape(vals []uint32) *Tape {
	return &Tape{vals: append([]uint32(nil), vals...), replay: true}
}

// Values returns the values drawn so far (record mode) or consumed (replay mode).
func (t *Tape) Values() []uint32 {
	if t.replay {
		n := t.pos
		if n > len(t.vals) {
			n = len(t.vals)
		}
		return append([]uint32(nil), t.vals[:n]...)
	}
	return append([]uint32(nil), t.vals...)
}

// Intn returns a choice in [0,n). 0 is by convention the simplest alternative.
func (t *Tape) Intn(n int, label string) int {
	if n <= 0 {
		panic(fmt.Sprintf("verifsim: Intn(%d) at %s", n, label))
	}
	t.Draws++
	if t.keepLabels {
		t.labels = append(t.labels, label)
	}
	if t.replay {
		var v uint32
		if t.pos < len(t.vals) {
			v = t.vals[t.pos]
		}
		t.pos++
		return int(v % uint32(n))
	}
	if n == 1 {
		t.vals = append(t.vals, 0)
		return 0
	}
	v := uint32(t.r.next() % uint64(n))
	t.vals = append(t.vals, v)
	return int(v)
}

// Bool draws a fair coin (false is the simple alternative).
func (t *Tape) Bool(label string) bool { return t.Intn(2, label) == 1 }

// Chance is true with probability num/den; false is the simple alternative.
func (t *Tape) Chance(num, den int, label string) bool {
	return t.Intn(den, label) >= den-num
}

// Range draws in [lo,hi], lo being simplest.
func (t *Tape) Range(lo, hi int, label string) int {
	if hi < lo {
		hi = lo
	}
	return lo + t.Intn(hi-lo+1, label)
}

// Small draws a size in [lo,hi] biased towards small values.
func (t *Tape) Small(lo, hi int, label string) int {
	if hi <= lo {
		return lo
	}
	// pick a bucket then a value: half the time in the lowest quarter.
	span := hi - lo + 1
	if t.Intn(2, label+"/b") == 0 {
		q := span / 4
		if q < 1 {
			q = 1
		}
		return lo + t.Intn(q, label)
	}
	return lo + t.Intn(span, label)
}

// Pick draws an index into a list of n alternatives.
func Pick[T any](t *Tape, xs []T, label string) T { return xs[t.Intn(len(xs), label)] }

// Perm draws a permutation of n (all-zero draws give the identity).
func (t *Tape) Perm(n int, label string) []int {
	p := make([]int, n)
	for i := range p {
		p[i] = i
	}
	for i := 0; i < n-1; i++ {
		j := i + t.Intn(n-i, label)
		p[i], p[j] = p[j], p[i]
	}
	return p
}

//go:build verif

// Package verifsim is the deterministic-simulation kernel that /verif/check
// injects into golang/perf builds with -overlay (it is never committed to
// /repo). One integer seeds a choice tape; every decision of a simulated run
// (workload, schedule, chunking, faults, map orders, clock steps) is one draw
// from that tape, so a tape is an exactly repeatable execution and can be
// minimised and replayed.
package verifsim

import (
	"fmt"
)

// splitmix64
type rng struct{ s uint64 }

func (r *rng) next() uint64 {
	r.s += 0x9e3779b97f4a7c15
	z := r.s
	z = (z ^ (z >> 30)) * 0xbf58476d1ce4e5b9
	z = (z ^ (z >> 27)) * 0x94d049bb133111eb
	return z ^ (z >> 31)
}

// Mix derives a run seed from the check seed, a property/lane name and a run index.
func Mix(seed uint64, name string, idx uint64) uint64 {
	r := rng{seed}
	h := r.next()
	for i := 0; i < len(name); i++ {
		h = (h ^ uint64(name[i])) * 0x100000001b3
	}
	r.s = h ^ (idx * 0x9e3779b97f4a7c15)
	r.next()
	return r.next()
}

// Tape is the single source of choices in a run. It has two independent
// streams: stream 0 carries workload, fault, chunking and map-order choices,
// stream 1 the scheduler's choices. Keeping them apart means that a different
// schedule does not shift the workload draws (used by the fault enumeration,
// which replays one scenario under several schedules) and that minimisation
// can shrink the schedule without disturbing the scenario.
type Tape struct {
	st [2]stream
	// Draws counts all draws of both streams (including those past the end in replay mode).
	Draws int
}

type stream struct {
	vals   []uint32
	pos    int
	replay bool
	r      rng
}

// NewTape returns a recording tape seeded with seed.
func NewTape(seed uint64) *Tape {
	t := &Tape{}
	t.st[0].r = rng{seed}
	t.st[1].r = rng{seed ^ 0x5ced5ced5ced5ced}
	return t
}

// ReplayTape returns a tape that replays vals on stream 0 and nothing (all
// zeros) on the scheduler stream.
func ReplayTape(vals []uint32) *Tape { return ReplayTape2(vals, nil) }

// ReplayTape2 replays both streams (value mod n; 0 once exhausted).
func ReplayTape2(vals, sched []uint32) *Tape {
	t := &Tape{}
	t.st[0] = stream{vals: append([]uint32(nil), vals...), replay: true}
	t.st[1] = stream{vals: append([]uint32(nil), sched...), replay: true}
	return t
}

// ReplayWithFreshSchedule replays the workload stream and records a new
// scheduler stream seeded with salt.
func ReplayWithFreshSchedule(vals []uint32, salt uint64) *Tape {
	t := &Tape{}
	t.st[0] = stream{vals: append([]uint32(nil), vals...), replay: true}
	t.st[1].r = rng{salt}
	return t
}

func (s *stream) values() []uint32 {
	if s.replay {
		n := s.pos
		if n > len(s.vals) {
			n = len(s.vals)
		}
		return append([]uint32(nil), s.vals[:n]...)
	}
	return append([]uint32(nil), s.vals...)
}

// Values returns the workload stream drawn so far (record mode) or consumed (replay mode).
func (t *Tape) Values() []uint32 { return t.st[0].values() }

// SchedValues is Values for the scheduler stream.
func (t *Tape) SchedValues() []uint32 { return t.st[1].values() }

func (t *Tape) draw(si int, n int, label string) int {
	if n <= 0 {
		panic(fmt.Sprintf("verifsim: Intn(%d) at %s", n, label))
	}
	t.Draws++
	s := &t.st[si]
	if s.replay {
		var v uint32
		if s.pos < len(s.vals) {
			v = s.vals[s.pos]
		}
		s.pos++
		return int(v % uint32(n))
	}
	if n == 1 {
		s.vals = append(s.vals, 0)
		return 0
	}
	v := uint32(s.r.next() % uint64(n))
	s.vals = append(s.vals, v)
	return int(v)
}

// Intn returns a choice in [0,n) from the workload stream. 0 is by convention the simplest alternative.
func (t *Tape) Intn(n int, label string) int { return t.draw(0, n, label) }

// SchedIntn is Intn on the scheduler stream.
func (t *Tape) SchedIntn(n int, label string) int { return t.draw(1, n, label) }

// Bool draws a fair coin (false is the simple alternative).
func (t *Tape) Bool(label string) bool { return t.Intn(2, label) == 1 }

// Chance is true with probability num/den; false is the simple alternative.
func (t *Tape) Chance(num, den int, label string) bool {
	return t.Intn(den, label) >= den-num
}

// Range draws in [lo,hi], lo being simplest.
func (t *Tape) Range(lo, hi int, label string) int {
	if hi < lo {
		hi = lo
	}
	return lo + t.Intn(hi-lo+1, label)
}

// Small draws a size in [lo,hi] biased towards small values.
func (t *Tape) Small(lo, hi int, label string) int {
	if hi <= lo {
		return lo
	}
	// pick a bucket then a value: half the time in the lowest quarter.
	span := hi - lo + 1
	if t.Intn(2, label+"/b") == 0 {
		q := span / 4
		if q < 1 {
			q = 1
		}
		return lo + t.Intn(q, label)
	}
	return lo + t.Intn(span, label)
}

// Pick draws an index into a list of n alternatives.
func Pick[T any](t *Tape, xs []T, label string) T { return xs[t.Intn(len(xs), label)] }

// Perm draws a permutation of n (all-zero draws give the identity).
func (t *Tape) Perm(n int, label string) []int {
	p := make([]int, n)
	for i := range p {
		p[i] = i
	}
	for i := 0; i < n-1; i++ {
		j := i + t.Intn(n-i, label)
		p[i], p[j] = p[j], p[i]
	}
	return p
}

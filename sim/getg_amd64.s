//go:build verif && amd64

#include "textflag.h"

// func getg() unsafe.Pointer
TEXT ·getg(SB),NOSPLIT,$0-8
	MOVQ (TLS), R14
	MOVQ R14, ret+0(FP)
	RET

//go:build verif

package verifsim

import (
	"errors"
	"io"
)

// ErrInjected is the sentinel error injected by simulated streams and stores.
var ErrInjected = errors.New("verifsim: injected I/O error")

// SimReader delivers Data in tape-drawn chunks with optional faults.
type SimReader struct {
	R    *Run
	Data []byte
	Off  int
	// ErrAt >= 0: return ErrInjected once Off reaches ErrAt (bytes before are delivered).
	ErrAt int
	// CutAt >= 0: clean EOF at that offset.
	CutAt int
	// MaxChunk bounds chunk sizes (0 = whole buffer).
	MaxChunk int
	// Quirks enables zero-length reads and (n, io.EOF) returns.
	Quirks bool
	zeros  int
	Reads  int
}

func NewSimReader(r *Run, data []byte) *SimReader {
	return &SimReader{R: r, Data: data, ErrAt: -1, CutAt: -1}
}

func (s *SimReader) Read(p []byte) (int, error) {
	s.Reads++
	end := len(s.Data)
	if s.CutAt >= 0 && s.CutAt < end {
		end = s.CutAt
	}
	failing := false
	if s.ErrAt >= 0 && s.ErrAt <= end {
		end = s.ErrAt
		failing = true
	}
	if s.Off >= end {
		if failing {
			s.R.Fault("read-error")
			return 0, ErrInjected
		}
		if s.CutAt >= 0 && s.CutAt < len(s.Data) {
			s.R.Fault("read-truncation")
		}
		return 0, io.EOF
	}
	if len(p) == 0 {
		return 0, nil
	}
	if s.Quirks && s.zeros < 20 && s.R.T.Intn(12, "zero-read") == 11 {
		s.zeros++
		s.R.Fault("zero-length-read")
		return 0, nil
	}
	n := end - s.Off
	if n > len(p) {
		n = len(p)
	}
	if s.MaxChunk > 0 {
		c := 1 + s.R.T.Intn(s.MaxChunk, "chunk")
		if c < n {
			n = c
			s.R.Probes["short-read"]++
		}
	}
	copy(p, s.Data[s.Off:s.Off+n])
	s.Off += n
	if s.Off >= end && !failing && s.Quirks && s.R.T.Intn(2, "n-with-eof") == 1 {
		s.R.Fault("data-with-EOF")
		return n, io.EOF
	}
	return n, nil
}

// SimWriter collects written bytes with optional faults.
type SimWriter struct {
	R   *Run
	Buf []byte
	// ErrAtByte >= 0: the write that would cross this offset is short and fails.
	ErrAtByte int
	// ErrAtCall >= 0: the call with this 0-based index fails before accepting anything.
	ErrAtCall int
	// Sticky: after the first failure every later write fails too.
	Sticky bool
	Calls  int
	failed bool
	// Marks[i] is len(Buf) after call i (successful or not).
	Marks []int
}

func NewSimWriter(r *Run) *SimWriter { return &SimWriter{R: r, ErrAtByte: -1, ErrAtCall: -1} }

func (w *SimWriter) Write(p []byte) (int, error) {
	call := w.Calls
	w.Calls++
	defer func() { w.Marks = append(w.Marks, len(w.Buf)) }()
	if w.failed && w.Sticky {
		return 0, ErrInjected
	}
	if w.ErrAtCall == call {
		w.failed = true
		w.R.Fault("write-error-at-call")
		return 0, ErrInjected
	}
	if w.ErrAtByte >= 0 && !w.failed && len(w.Buf)+len(p) > w.ErrAtByte {
		n := w.ErrAtByte - len(w.Buf)
		if n < 0 {
			n = 0
		}
		w.Buf = append(w.Buf, p[:n]...)
		w.failed = true
		w.R.Fault("short-write")
		return n, ErrInjected
	}
	w.Buf = append(w.Buf, p...)
	return len(p), nil
}

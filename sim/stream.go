//go:build verif

package verifsim

import (
	"errors"
	"io"
)

// ErrInjected is the sentinel error injected by simulated streams and stores.
var ErrInjected = errors.New("verifsim: injected I/O error")

// SimReader delivers Data in tape-drawn chunks with optional faults.
type SimReader struct {
	R    *Run
	Data []byte
	Off  int
	// ErrAt >= 0: return ErrInjected once Off reaches ErrAt (bytes before are delivered).
	ErrAt int
	// CutAt >= 0: clean EOF at that offset.
	CutAt int
	// MaxChunk bounds chunk sizes (0 = whole buffer).
	MaxChunk int
	// Quirks enables zero-length reads and (n, io.EOF) returns.
	Quirks bool
	zeros  int
	Reads  int
}

func NewSimReader(r *Run, data []byte) *SimReader {
	return &SimReader{R: r, Data: data, ErrAt: -1, CutAt: -1}
}

func (s *SimReader) Read(p []byte) (int, error) {
	s.Reads++
	end := len(s.Data)
	if s.CutAt >= 0 && s.CutAt < end {
		end = s.CutAt
	}
	failing := false
	if s.ErrAt >= 0 && s.ErrAt <= end {
		end = s.ErrAt
		failing = true
	}
	if s.Off >= end {
		if failing {
			s.R.Fault("read-error")
			return 0, ErrInjected
		}
		if s.CutAt >= 0 && s.CutAt < len(s.Data) {
			s.R.Fault("read-truncation")
		}
		return 0, io.EOF
	}
	if len(p) == 0 {
		return 0, nil
	}
	if s.Quirks && s.zeros < 20 && s.R.T.Intn(12, "zero-read") == 11 {
		s.zeros++
		s.R.Fault("zero-length-read")
		return 0, nil
	}
	n := end - s.Off
	if n > len(p) {
		n = len(p)
	}
	if s.MaxChunk > 0 {
		c := 1 + s.R.T.Intn(s.MaxChunk, "chunk")
		if c < n {
			n = c
			s.R.Probes["short-read"]++
		}
	}
	copy(p, s.Data[s.Off:s.Off+n])
	s.Off += n
	if s.Off >= end && !failing && s.Quirks && s.R.T.Intn(2, "n-with-eof") == 1 {
		s.R.Fault("data-with-EOF")
		return n, io.EOF
	}
	return n, nil
}

// SimWriter collects written bytes with optional faults.
type SimWriter struct {
	R   *Run
	Buf []byte
	// ErrAtByte >= 0: the write that would cross this offset is short and fails.
	ErrAtByte int
	// ErrAtCall >= 0: the call with this 0-based index fails before accepting anything.
	ErrAtCall int
	// Sticky: after the first failure every later write fails too.
	Sticky bool
	Calls  int
	failed bool
	// Marks[i] is len(Buf) after call i (successful or not).
	Marks []int
}

func NewSimWriter(r *Run) *SimWriter { return &SimWriter{R: r, ErrAtByte: -1, ErrAtCall: -1} }

func (w *SimWriter) Write(p []byte) (int, error) {
	call := w.Calls
	w.Calls++
	defer func() { w.Marks = append(w.Marks, len(w.Buf)) }()
	if w.failed && w.Sticky {
		return 0, ErrInjected
	}
	if w.ErrAtCall == call {
		w.failed = true
		w.R.Fault("write-error-at-call")
		return 0, ErrInjected
	}
	if w.ErrAtByte >= 0 && !w.failed && len(w.Buf)+len(p) > w.ErrAtByte {
		n := w.ErrAtByte - len(w.Buf)
		if n < 0 {
			n = 0
		}
		w.Buf = append(w.Buf, p[:n]...)
		w.failed = true
		w.R.Fault("short-write")
		return n, ErrInjected
	}
	w.Buf = append(w.Buf, p...)
	return len(p), nil
}

// SimPipe is a bounded in-memory pipe between two simulated tasks. Nothing in
// it blocks for real: a full (empty) pipe makes the writer (reader) yield and
// retry, so chunking is a consequence of the schedule. Either end can be
// closed with an error.
type SimPipe struct {
	R      *Run
	Cap    int
	buf    []byte
	wdone  bool
	werr   error
	rdone  bool
	rerr   error
	Moved  int // bytes that went through
	Stalls int
}

func NewSimPipe(r *Run, capacity int) *SimPipe {
	if capacity < 1 {
		capacity = 1
	}
	return &SimPipe{R: r, Cap: capacity}
}

// taskBlocked marks the calling task as not worth scheduling until something changes.
func taskBlocked() {
	r := cur.Load()
	if r == nil || r.sched == nil {
		return
	}
	if t := r.sched.lookup(); t != nil {
		r.sched.mu.Lock()
		t.spin = true
		r.sched.mu.Unlock()
	}
}

func (p *SimPipe) Write(b []byte) (int, error) {
	n := 0
	for len(b) > 0 {
		Yield("pipe:write")
		if p.rdone {
			err := p.rerr
			if err == nil {
				err = io.ErrClosedPipe
			}
			return n, err
		}
		if p.wdone {
			return n, io.ErrClosedPipe
		}
		room := p.Cap - len(p.buf)
		if room <= 0 {
			p.Stalls++
			taskBlocked()
			continue
		}
		k := room
		if k > len(b) {
			k = len(b)
		}
		p.buf = append(p.buf, b[:k]...)
		b = b[k:]
		n += k
		p.Moved += k
		MutexUnlocked() // wake tasks waiting on the pipe
	}
	return n, nil
}

func (p *SimPipe) Read(b []byte) (int, error) {
	for {
		Yield("pipe:read")
		if p.rdone {
			return 0, io.ErrClosedPipe
		}
		if len(p.buf) > 0 {
			k := copy(b, p.buf)
			p.buf = p.buf[k:]
			MutexUnlocked()
			return k, nil
		}
		if p.wdone {
			if p.werr != nil {
				return 0, p.werr
			}
			return 0, io.EOF
		}
		p.Stalls++
		taskBlocked()
	}
}

// CloseWrite ends the stream; err == nil is a clean EOF for the reader.
func (p *SimPipe) CloseWrite(err error) { p.wdone, p.werr = true, err; MutexUnlocked() }

// CloseRead makes further writes fail with err (io.ErrClosedPipe if nil).
func (p *SimPipe) CloseRead(err error) { p.rdone, p.rerr = true, err; MutexUnlocked() }

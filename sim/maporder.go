//go:build verif

package verifsim

import (
	"fmt"
	"iter"
	"reflect"
	"sort"
	"strings"
	"sync"
	"unsafe"
)

var (
	canonMu sync.RWMutex
	canon   = map[reflect.Type]func(any) string{}
)

// RegisterCanon registers a canonical string form for map keys of type K so
// that the iteration order of maps keyed by K can be owned by the simulator.
func RegisterCanon[K any](f func(K) string) {
	var zero K
	canonMu.Lock()
	canon[reflect.TypeOf(zero)] = func(x any) string { return f(x.(K)) }
	canonMu.Unlock()
}

// OwnMapOrder switches seeded map iteration on for this run.
func (r *Run) OwnMapOrder(on bool) { r.mapOrder = on }

// Map iterates m in an order drawn from the tape (over a canonical base
// order). Without an active run that owns map order it iterates natively.
// Instrumented builds rewrite `range m` into `range verifsim.Map(m)`.
func Map[K comparable, V any](m map[K]V) iter.Seq2[K, V] {
	return func(yield func(K, V) bool) {
		r := cur.Load()
		if RaceMode || r == nil || !r.mapOrder || len(m) == 0 { // (race lane: tasks run in parallel and must not share the tape)
			for k, v := range m {
				if !yield(k, v) {
					return
				}
			}
			return
		}
		keys := make([]K, 0, len(m))
		for k := range m {
			keys = append(keys, k)
		}
		var zero K
		typ := reflect.TypeOf(zero)
		var cf func(any) string
		if typ != nil {
			canonMu.RLock()
			cf = canon[typ]
			canonMu.RUnlock()
			if cf == nil {
				switch typ.Kind() {
				case reflect.String, reflect.Int, reflect.Int8, reflect.Int16, reflect.Int32, reflect.Int64,
					reflect.Uint, reflect.Uint8, reflect.Uint16, reflect.Uint32, reflect.Uint64, reflect.Bool:
					cf = func(x any) string { return fmt.Sprintf("%020v", x) }
					if typ.Kind() == reflect.String {
						cf = func(x any) string { return reflect.ValueOf(x).String() }
					}
				default:
					if plainKey(typ) {
						// floats, and structs/arrays built from plain kinds: %#v is injective on them (NaN keys excepted, which nothing can tell apart anyway)
						cf = func(x any) string { return fmt.Sprintf("%#v", x) }
					} else if vf := composedCanon(typ, 0); vf != nil {
						// structs/arrays whose members are plain or have a registered canonical form (e.g. an
						// unexported struct of benchproc.Key fields): canonical member by member
						cf = func(x any) string {
							v := reflect.New(typ).Elem()
							v.Set(reflect.ValueOf(x))
							return vf(v)
						}
					}
				}
			}
		}
		if cf != nil {
			strs := make([]string, len(keys))
			for i, k := range keys {
				strs[i] = cf(k)
			}
			idx := make([]int, len(keys))
			for i := range idx {
				idx[i] = i
			}
			sort.SliceStable(idx, func(a, b int) bool { return strs[idx[a]] < strs[idx[b]] })
			for i := 1; i < len(idx); i++ {
				if strs[idx[i]] == strs[idx[i-1]] && strs[idx[i]] != "" {
					// two distinct keys of one map that print identically: their relative order is the
					// runtime's, nothing downstream can tell them apart, so output order follows the map seed
					r.Flag("map-order", "indistinguishable-keys", "a map keyed by %v holds two distinct keys with the same content %s; every result that depends on their order depends on the runtime's map iteration order", typ, strs[idx[i]])
					break
				}
			}
			sorted := make([]K, len(keys))
			for i, j := range idx {
				sorted[i] = keys[j]
			}
			keys = sorted
		} else {
			r.mu.Lock()
			r.NonCanon[fmt.Sprint(typ)]++
			r.mu.Unlock()
		}
		n := len(keys)
		if n > 1 {
			r.mu.Lock()
			r.Probes["map-order-draws"]++
			r.mu.Unlock()
			if n <= 24 {
				p := r.T.Perm(n, "maporder")
				perm := make([]K, n)
				for i, j := range p {
					perm[i] = keys[j]
				}
				keys = perm
			} else {
				// large maps: a drawn rotation plus a few drawn swaps
				rot := r.T.Intn(n, "maprot")
				keys = append(keys[rot:], keys[:rot]...)
				for i := 0; i < 4; i++ {
					a, b := r.T.Intn(n, "mapswap"), r.T.Intn(n, "mapswap")
					keys[a], keys[b] = keys[b], keys[a]
				}
			}
		}
		for _, k := range keys {
			v, ok := m[k]
			if !ok {
				continue // deleted during iteration, as with a native range
			}
			if !yield(k, v) {
				return
			}
		}
	}
}

// plainKey reports whether values of typ are fully described by their printed form (no pointers, interfaces or channels inside).
func plainKey(typ reflect.Type) bool {
	switch typ.Kind() {
	case reflect.String, reflect.Int, reflect.Int8, reflect.Int16, reflect.Int32, reflect.Int64,
		reflect.Uint, reflect.Uint8, reflect.Uint16, reflect.Uint32, reflect.Uint64, reflect.Uintptr, reflect.Bool,
		reflect.Float32, reflect.Float64, reflect.Complex64, reflect.Complex128:
		return true
	case reflect.Array:
		return plainKey(typ.Elem())
	case reflect.Struct:
		for i := 0; i < typ.NumField(); i++ {
			if !plainKey(typ.Field(i).Type) {
				return false
			}
		}
		return true
	}
	return false
}

// composedCanon builds a canonical form for an addressable value of typ out of the registered canonical forms of its
// members; nil if some member has none.
func composedCanon(typ reflect.Type, depth int) func(reflect.Value) string {
	if depth > 4 {
		return nil
	}
	canonMu.RLock()
	reg := canon[typ]
	canonMu.RUnlock()
	if reg != nil {
		return func(v reflect.Value) string {
			if !v.CanInterface() {
				v = reflect.NewAt(v.Type(), unsafe.Pointer(v.UnsafeAddr())).Elem()
			}
			return reg(v.Interface())
		}
	}
	if plainKey(typ) {
		return func(v reflect.Value) string {
			if !v.CanInterface() {
				v = reflect.NewAt(v.Type(), unsafe.Pointer(v.UnsafeAddr())).Elem()
			}
			return fmt.Sprintf("%#v", v.Interface())
		}
	}
	switch typ.Kind() {
	case reflect.Struct:
		fs := make([]func(reflect.Value) string, typ.NumField())
		for i := range fs {
			if fs[i] = composedCanon(typ.Field(i).Type, depth+1); fs[i] == nil {
				return nil
			}
		}
		return func(v reflect.Value) string {
			parts := make([]string, len(fs))
			for i, f := range fs {
				parts[i] = f(v.Field(i))
			}
			return strings.Join(parts, "\x00|")
		}
	case reflect.Array:
		ef := composedCanon(typ.Elem(), depth+1)
		if ef == nil {
			return nil
		}
		return func(v reflect.Value) string {
			parts := make([]string, v.Len())
			for i := range parts {
				parts[i] = ef(v.Index(i))
			}
			return strings.Join(parts, "\x00|")
		}
	}
	return nil
}

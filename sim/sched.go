//go:build verif

package verifsim

import (
	"fmt"
	"math/rand/v2"
	"runtime"
	"sort"
	"strings"
	"sync"
	"sync/atomic"
	"testing"
	"testing/synctest"
	"time"
	"unsafe"
)

type task struct {
	id        int
	name      string
	class     int
	wake      chan struct{}
	parked    bool
	site      string
	started   bool
	done      bool
	lockDepth int
	prio      int
	adopted   bool // goroutine started by real code; no exit hook, so it never counts as unfinished
	spin      bool // failed a simulated TryLock; not worth scheduling until some lock is released
}

// Sched is the seeded scheduler of one bubble: real goroutines park at yield
// points and are released one at a time; which one is drawn from the tape.
type Sched struct {
	r     *Run
	mu    sync.Mutex
	tasks []*task
	byGid map[uint64]*task
	stepA atomic.Int64
	fast  atomic.Bool // fail-fast: yields no longer park

	strategy   int
	starve     int
	last       *task
	changeAt   map[int]bool
	MaxSteps   int
	onAbort    []func()
	pendingAdv time.Duration
	start      time.Time
	onces      map[*sync.Once]*onceState
	free       bool // RaceMode: tasks run unscheduled
	wg         sync.WaitGroup
}

const (
	StratUniform = iota
	StratSticky
	StratRoundRobin
	StratStarve
	StratPCT
	nStrat
)

var stratNames = []string{"uniform", "sticky", "roundrobin", "starve", "pct"}

func (s *Sched) lookup() *task {
	g := gid()
	s.mu.Lock()
	t := s.byGid[g]
	s.mu.Unlock()
	return t
}

// current returns the calling goroutine's task, adopting an unknown goroutine
// (one that real code started itself) as a new task.
func (s *Sched) current(site string) *task {
	g := gid()
	s.mu.Lock()
	t := s.byGid[g]
	if t == nil {
		t = &task{id: len(s.tasks) + 1, name: "adopted@" + site, class: 2, wake: make(chan struct{}, 1), prio: 500, adopted: true}
		s.tasks = append(s.tasks, t)
		t.started = true
		s.byGid[g] = t
	}
	s.mu.Unlock()
	return t
}

func (s *Sched) newTaskLocked(name string, class int) *task {
	t := &task{id: len(s.tasks) + 1, name: name, class: class, wake: make(chan struct{}, 1)}
	if s.strategy == StratPCT {
		// priorities are drawn by the spawning task, which is the released one
		t.prio = 1 + s.r.T.SchedIntn(1000, "prio")
	}
	s.tasks = append(s.tasks, t)
	return t
}

// Bubble runs f inside a synctest bubble with a fresh scheduler. f spawns the
// initial tasks with s.Go and then calls s.Loop().
func (r *Run) Bubble(t *testing.T, maxSteps int, f func(s *Sched)) {
	s := &Sched{r: r, byGid: map[uint64]*task{}, MaxSteps: maxSteps, changeAt: map[int]bool{}, onces: map[*sync.Once]*onceState{}}
	s.strategy = r.T.SchedIntn(nStrat, "strategy")
	switch s.strategy {
	case StratStarve:
		s.starve = r.T.SchedIntn(3, "starve-class")
	case StratPCT:
		n := 1 + r.T.SchedIntn(3, "pct-d")
		for i := 0; i < n; i++ {
			s.changeAt[r.T.SchedIntn(400, "pct-at")] = true
		}
	}
	r.Info["strategy"] = stratNames[s.strategy]
	if RaceMode {
		// race-detector lane: no scheduler, the tasks are plain goroutines running in parallel
		s.free = true
		r.Guard(func() { f(s) })
		return
	}
	r.sched = s
	defer func() {
		r.sched = nil
		if p := recover(); p != nil {
			msg := fmt.Sprint(p)
			if strings.Contains(msg, "deadlock") && strings.Contains(msg, "bubble") {
				r.Flag("liveness", "goroutines-left-blocked", "bubble ended with blocked goroutines: %s", msg)
				return
			}
			panic(p)
		}
	}()
	synctest.Test(t, func(*testing.T) {
		s.start = time.Now()
		r.Guard(func() { f(s) })
		r.SimTime += time.Since(s.start)
		// make sure nothing stays parked
		s.fast.Store(true)
		s.mu.Lock()
		for _, t := range s.tasks {
			if t.parked {
				t.parked = false
				t.wake <- struct{}{}
			}
		}
		s.mu.Unlock()
	})
}

// Go starts a harness task. class is used by the starve strategy
// (0 = driver/spawner, 1 = workers/servers, 2 = other).
func (s *Sched) Go(name string, class int, fn func()) {
	if s.free {
		s.wg.Add(1)
		go func() {
			defer s.wg.Done()
			s.r.Guard(fn)
		}()
		return
	}
	s.mu.Lock()
	t := s.newTaskLocked(name, class)
	s.mu.Unlock()
	go func() {
		s.mu.Lock()
		s.byGid[gid()] = t
		t.started = true
		s.mu.Unlock()
		defer func() {
			s.mu.Lock()
			t.done = true
			s.mu.Unlock()
		}()
		s.r.Guard(func() {
			s.park(t, "start")
			fn()
		})
	}()
}

// OnAbort registers a function the scheduler calls when it gives up on a run
// (deadlock or step budget), to unblock tasks stuck in real primitives.
func (s *Sched) OnAbort(f func()) { s.mu.Lock(); s.onAbort = append(s.onAbort, f); s.mu.Unlock() }

func (s *Sched) park(t *task, site string) {
	if s.fast.Load() {
		return
	}
	s.mu.Lock()
	if t.lockDepth > 0 {
		s.mu.Unlock()
		return
	}
	t.parked = true
	t.site = site
	s.mu.Unlock()
	<-t.wake
}

// Advance asks the scheduler to move the simulated clock forward by d before
// the next task is released. Must be called by a task; it yields.
func (s *Sched) Advance(d time.Duration) {
	if s.free {
		return
	}
	s.mu.Lock()
	s.pendingAdv += d
	s.mu.Unlock()
	s.park(s.current("advance"), "advance")
}

// Loop is the scheduler proper; it returns when every task has finished.
func (s *Sched) Loop() {
	if s.free {
		s.wg.Wait()
		return
	}
	r := s.r
	idle := 0
	for {
		synctest.Wait()
		s.mu.Lock()
		var parked []*task
		alive := 0
		for _, t := range s.tasks {
			if !t.done {
				if !t.adopted {
					alive++
				}
				if t.parked {
					parked = append(parked, t)
				}
			}
		}
		adv := s.pendingAdv
		s.pendingAdv = 0
		s.mu.Unlock()
		if adv > 0 {
			time.Sleep(adv)
		}
		if len(parked) == 0 {
			if alive == 0 {
				break
			}
			if idle < 3 {
				idle++
				time.Sleep(time.Millisecond)
				continue
			}
			var stuck []string
			s.mu.Lock()
			for _, t := range s.tasks {
				if !t.done && !t.adopted {
					stuck = append(stuck, fmt.Sprintf("%s(last site %s)", t.name, t.site))
				}
			}
			s.mu.Unlock()
			r.Flag("liveness", "deadlock", "no task can run and %d have not finished: %s", alive, strings.Join(stuck, ", "))
			s.abort()
			break
		}
		idle = 0
		step := int(s.stepA.Load())
		if step >= s.MaxSteps {
			r.Flag("liveness", "step-budget", "run did not finish within %d scheduler steps", s.MaxSteps)
			s.abort()
			break
		}
		pick := s.choose(parked, step)
		s.stepA.Add(1)
		r.Steps++
		r.SchedHash = (r.SchedHash ^ uint64(pick.id)) * fnvPrime
		r.SchedHash = fnvAdd(r.SchedHash, pick.site)
		s.last = pick
		s.mu.Lock()
		pick.parked = false
		pick.spin = false
		s.mu.Unlock()
		pick.wake <- struct{}{}
	}
}

func (s *Sched) abort() {
	s.fast.Store(true)
	s.mu.Lock()
	fs := s.onAbort
	var parked []*task
	for _, t := range s.tasks {
		if t.parked {
			t.parked = false
			parked = append(parked, t)
		}
	}
	s.mu.Unlock()
	for _, f := range fs {
		f()
	}
	for _, t := range parked {
		t.wake <- struct{}{}
	}
	// give unwinding tasks a chance to finish
	for i := 0; i < 50; i++ {
		synctest.Wait()
		s.mu.Lock()
		alive := 0
		for _, t := range s.tasks {
			if !t.done && t.started {
				alive++
			}
			if t.parked {
				t.parked = false
				t.wake <- struct{}{}
			}
		}
		s.mu.Unlock()
		if alive == 0 {
			return
		}
		time.Sleep(time.Millisecond)
	}
}

func (s *Sched) choose(parked []*task, step int) *task {
	sort.Slice(parked, func(i, j int) bool { return parked[i].id < parked[j].id })
	var ready []*task
	for _, t := range parked {
		if !t.spin {
			ready = append(ready, t)
		}
	}
	if len(ready) > 0 && len(ready) < len(parked) {
		parked = ready // tasks waiting for a simulated mutex run only when nothing else can
	}
	T := s.r.T
	n := len(parked)
	switch s.strategy {
	case StratSticky:
		if s.last != nil {
			for _, t := range parked {
				if t == s.last {
					if T.SchedIntn(8, "sticky") < 7 {
						return t
					}
					break
				}
			}
		}
	case StratRoundRobin:
		if s.last != nil {
			for _, t := range parked {
				if t.id > s.last.id {
					return t
				}
			}
		}
		return parked[0]
	case StratStarve:
		var rest []*task
		for _, t := range parked {
			if t.class != s.starve {
				rest = append(rest, t)
			}
		}
		if len(rest) > 0 && len(rest) < n && T.SchedIntn(16, "starve-x") < 15 {
			parked, n = rest, len(rest)
		}
	case StratPCT:
		if s.changeAt[step] && s.last != nil {
			s.last.prio = -step
		}
		best := parked[0]
		for _, t := range parked[1:] {
			if t.prio > best.prio {
				best = t
			}
		}
		return best
	}
	if n == 1 {
		return parked[0]
	}
	return parked[T.SchedIntn(n, "sched")]
}

// ---- entry points for instrumented code (no-ops without an active bubble) ----

// RaceMode turns yield points into unsynchronised, randomly taken
// runtime.Gosched calls: used by the race-detector lane, where a serialising
// scheduler would hide data races behind its own happens-before edges.
// It is set once before any goroutine starts and only read afterwards.
var RaceMode bool

func racePerturb() {
	if rand.Uint32()%3 == 0 {
		runtime.Gosched()
	}
}

// Yield is a scheduling point.
func Yield(site string) {
	if RaceMode {
		racePerturb()
		return
	}
	r := cur.Load()
	if r == nil {
		return
	}
	s := r.sched
	if s == nil || s.fast.Load() {
		return
	}
	s.park(s.current(site), site)
}

// Spawn is called by the parent just before a go statement; it allocates the
// child's task id.
func Spawn(site string) int {
	r := cur.Load()
	if r == nil || r.sched == nil {
		return 0
	}
	s := r.sched
	s.mu.Lock()
	t := s.newTaskLocked(site, 1)
	s.mu.Unlock()
	return t.id
}

// Enter binds the calling goroutine to the task allocated by Spawn and parks.
func Enter(id int) {
	r := cur.Load()
	if r == nil || r.sched == nil || id == 0 {
		return
	}
	s := r.sched
	s.mu.Lock()
	if id > len(s.tasks) {
		s.mu.Unlock()
		return
	}
	t := s.tasks[id-1]
	s.byGid[gid()] = t
	t.started = true
	s.mu.Unlock()
	s.park(t, "enter")
}

// Exit marks the calling goroutine's task finished.
func Exit(id int) {
	r := cur.Load()
	if r == nil || r.sched == nil || id == 0 {
		return
	}
	s := r.sched
	s.mu.Lock()
	if id <= len(s.tasks) {
		s.tasks[id-1].done = true
	}
	s.mu.Unlock()
}

// ExitRecover is the deferred epilogue of instrumented goroutines:
// `defer func() { verifsim.ExitRecover(id, recover()) }()`. A panic in a
// goroutine of the code under test would kill the process; under the
// simulator it is recorded as a violation of the run instead. Without an
// active run the panic is re-raised unchanged.
func ExitRecover(id int, p any) {
	r := cur.Load()
	if p != nil {
		if r == nil || r.sched == nil {
			panic(p)
		}
		if _, ok := p.(abortRun); !ok {
			sig, detail := panicSig(p)
			r.Flag("panic", "goroutine: "+sig, "panic in a goroutine started by the code under test: %s", detail)
		}
	}
	Exit(id)
}

// LockEnter/LockExit bracket critical sections (sync.Mutex, sync.Once.Do):
// yields inside them are suppressed because sync.Mutex does not block durably
// in a synctest bubble.
func LockEnter() {
	r := cur.Load()
	if r == nil || r.sched == nil {
		return
	}
	t := r.sched.current("lock")
	r.sched.mu.Lock()
	t.lockDepth++
	r.sched.mu.Unlock()
}

func LockExit() {
	r := cur.Load()
	if r == nil || r.sched == nil {
		return
	}
	t := r.sched.current("unlock")
	r.sched.mu.Lock()
	if t.lockDepth > 0 {
		t.lockDepth--
	}
	r.sched.mu.Unlock()
}

// Step returns the global scheduler step (0 outside a bubble).
func (r *Run) Step() int {
	if r.sched == nil {
		return 0
	}
	return int(r.sched.stepA.Load())
}

// YieldW is a scheduling point placed before writes to shared state (struct
// fields, package variables). It parks only in spawned worker goroutines, so
// the sequential phases of the main task stay cheap.
func YieldW(site string) {
	if RaceMode {
		racePerturb()
		return
	}
	r := cur.Load()
	if r == nil {
		return
	}
	s := r.sched
	if s == nil || s.fast.Load() {
		return
	}
	t := s.lookup()
	if t == nil || t.class != 1 {
		return
	}
	s.park(t, site)
}

// GOMAXPROCS is the seam for runtime.GOMAXPROCS(n) reads in instrumented
// code: instrumented call sites become verifsim.GOMAXPROCS(runtime.GOMAXPROCS(n), n).
// With an active run that simulates a processor count and n <= 0 (a query)
// the simulated value is returned; the real setting stays small so that
// sixteen worker processes do not oversubscribe the machine.
func GOMAXPROCS(real int, n int) int {
	if r := cur.Load(); r != nil && r.SimProcs > 0 && n <= 0 {
		return r.SimProcs
	}
	return real
}

// MutexLock is the simulated form of x.Lock() in instrumented code: a TryLock
// loop over yield points. No instrumented task ever blocks inside
// sync.Mutex.Lock (which is not durably blocking in a synctest bubble), so
// tasks may park while holding a mutex and the scheduler can interleave
// lock-free code of other tasks with a critical section.
func MutexLock(l interface {
	Lock()
	TryLock() bool
}, site string) {
	r := cur.Load()
	if RaceMode || r == nil || r.sched == nil || r.sched.fast.Load() {
		if RaceMode {
			racePerturb()
		}
		l.Lock()
		return
	}
	s := r.sched
	t := s.current(site)
	for i := 0; ; i++ {
		s.park(t, site)
		if s.fast.Load() {
			l.Lock()
			return
		}
		if l.TryLock() {
			s.mu.Lock()
			t.spin = false
			s.mu.Unlock()
			return
		}
		s.mu.Lock()
		t.spin = true
		s.mu.Unlock()
		r.Hit("simulated mutex contended")
	}
}

// MutexRLock is MutexLock for read locks.
func MutexRLock(l interface {
	RLock()
	TryRLock() bool
}, site string) {
	r := cur.Load()
	if RaceMode || r == nil || r.sched == nil || r.sched.fast.Load() {
		l.RLock()
		return
	}
	s := r.sched
	t := s.current(site)
	for {
		s.park(t, site)
		if s.fast.Load() {
			l.RLock()
			return
		}
		if l.TryRLock() {
			s.mu.Lock()
			t.spin = false
			s.mu.Unlock()
			return
		}
		s.mu.Lock()
		t.spin = true
		s.mu.Unlock()
	}
}

// MutexUnlocked is called after every Unlock/RUnlock in instrumented code:
// tasks that failed a simulated TryLock become schedulable again.
func MutexUnlocked() {
	r := cur.Load()
	if r == nil || r.sched == nil {
		return
	}
	s := r.sched
	me := s.lookup()
	s.mu.Lock()
	if me != nil && me.lockDepth > 0 {
		me.lockDepth-- // pairs with LockEnter of a lock call that could not be simulated
	}
	for _, t := range s.tasks {
		t.spin = false
	}
	s.mu.Unlock()
}

// Blocked marks the calling task as waiting for some other task's progress:
// the scheduler picks it only when nothing else can run (cleared by any
// MutexUnlocked/pipe progress or when it is picked).
func Blocked() { taskBlocked() }

// ---- simulated sync.Once ----

// onceDoneReadable reports whether the done flag of a sync.Once can be read
// at offset 0 (checked at start-up on a real Once, no layout assumed blindly).
var onceDoneReadable = func() bool {
	var o sync.Once
	if onceDone(&o) {
		return false
	}
	o.Do(func() {})
	return onceDone(&o)
}()

//go:nocheckptr
func onceDone(o *sync.Once) bool {
	return atomic.LoadUint32((*uint32)(unsafe.Pointer(o))) == 1
}

type onceState struct{ running bool }

// OnceDo is the simulated form of o.Do(f) in instrumented code. The function
// runs with yield points enabled (sync.Once would block other callers on a
// mutex, which is not durable in a synctest bubble, so parking inside Do is
// normally impossible); concurrent callers wait at yield points instead, and
// lock-free readers of whatever f initialises can be interleaved with it.
func OnceDo(o *sync.Once, f func(), site string) {
	r := cur.Load()
	if RaceMode || r == nil || r.sched == nil || r.sched.fast.Load() || !onceDoneReadable {
		if r != nil && r.sched != nil && !r.sched.fast.Load() {
			LockEnter()
			defer LockExit()
		}
		o.Do(f)
		return
	}
	s := r.sched
	t := s.current(site)
	for {
		s.park(t, site)
		if s.fast.Load() {
			o.Do(f)
			return
		}
		if onceDone(o) {
			return
		}
		s.mu.Lock()
		st := s.onces[o]
		if st == nil {
			st = &onceState{}
			s.onces[o] = st
		}
		if !st.running {
			st.running = true
			s.mu.Unlock()
			break
		}
		t.spin = true // another task is inside f
		s.mu.Unlock()
	}
	defer func() {
		o.Do(func() {}) // mark the real Once done (also when f panicked, as sync.Once does)
		s.mu.Lock()
		delete(s.onces, o)
		s.mu.Unlock()
		MutexUnlocked()
	}()
	f()
}

//go:build verif

package verifsim

import (
	"reflect"
	"strings"
	"unsafe"
)

// DeepSnapshot captures the initial value of a package-level variable of an
// instrumented package, following maps, slices, pointers and struct fields
// (exported or not) as long as the types are unnamed or belong to the module
// under test; values of foreign named types (regexp.Regexp, sync.Mutex, ...)
// are kept as they are. The returned function puts the variable back into
// that state in place: a map keeps its identity and gets its contents
// replaced, so code that holds a reference to it sees the reset too.
// Generated reset hooks call it so that every simulated run starts from the
// same process state.
func DeepSnapshot[T any](p *T) func() {
	live := reflect.ValueOf(p).Elem()
	snap := reflect.New(live.Type()).Elem()
	deepCopy(snap, live, 0)
	return func() { deepRestore(live, snap, 0) }
}

const modulePrefix = "golang.org/x/perf"

func foreign(t reflect.Type) bool {
	return t.PkgPath() != "" && !strings.HasPrefix(t.PkgPath(), modulePrefix)
}

func settable(v reflect.Value) reflect.Value {
	if v.CanSet() || !v.CanAddr() {
		return v
	}
	return reflect.NewAt(v.Type(), unsafe.Pointer(v.UnsafeAddr())).Elem()
}

func isSync(t reflect.Type) bool {
	return t.PkgPath() == "sync" // locks, Once, WaitGroup: quiescent between runs; sync/atomic values are plain state and copied as they are
}

func deepCopy(dst, src reflect.Value, depth int) {
	t := src.Type()
	if isSync(t) {
		return // a quiescent lock is its zero value
	}
	if depth > 8 || foreign(t) {
		dst.Set(src)
		return
	}
	switch src.Kind() {
	case reflect.Struct:
		for i := 0; i < src.NumField(); i++ {
			deepCopy(settable(dst.Field(i)), settable(src.Field(i)), depth+1)
		}
	case reflect.Map:
		if src.IsNil() {
			dst.Set(reflect.Zero(t))
			return
		}
		m := reflect.MakeMapWithSize(t, src.Len())
		it := src.MapRange()
		for it.Next() {
			v := reflect.New(t.Elem()).Elem()
			deepCopy(v, it.Value(), depth+1)
			m.SetMapIndex(it.Key(), v)
		}
		dst.Set(m)
	case reflect.Slice:
		if src.IsNil() {
			dst.Set(reflect.Zero(t))
			return
		}
		s := reflect.MakeSlice(t, src.Len(), src.Len())
		for i := 0; i < src.Len(); i++ {
			deepCopy(s.Index(i), src.Index(i), depth+1)
		}
		dst.Set(s)
	case reflect.Pointer:
		if src.IsNil() || foreign(t.Elem()) {
			dst.Set(src)
			return
		}
		n := reflect.New(t.Elem())
		deepCopy(n.Elem(), src.Elem(), depth+1)
		dst.Set(n)
	case reflect.Array:
		for i := 0; i < src.Len(); i++ {
			deepCopy(dst.Index(i), src.Index(i), depth+1)
		}
	default:
		dst.Set(src)
	}
}

func deepRestore(live, snap reflect.Value, depth int) {
	t := snap.Type()
	if isSync(t) {
		if t.Name() != "Cond" && live.CanSet() {
			live.Set(reflect.Zero(t)) // between runs nothing holds it: a lock is free again, a Once guards state that has just been put back
		}
		return
	}
	if depth > 8 || foreign(t) {
		live.Set(snap)
		return
	}
	switch snap.Kind() {
	case reflect.Struct:
		for i := 0; i < snap.NumField(); i++ {
			deepRestore(settable(live.Field(i)), settable(snap.Field(i)), depth+1)
		}
	case reflect.Map:
		if snap.IsNil() {
			live.Set(reflect.Zero(t))
			return
		}
		if live.IsNil() {
			live.Set(reflect.MakeMap(t))
		}
		it := live.MapRange()
		var keys []reflect.Value
		for it.Next() {
			keys = append(keys, it.Key())
		}
		for _, k := range keys {
			live.SetMapIndex(k, reflect.Value{})
		}
		it = snap.MapRange()
		for it.Next() {
			v := reflect.New(t.Elem()).Elem()
			deepCopy(v, it.Value(), depth+1)
			live.SetMapIndex(it.Key(), v)
		}
	case reflect.Pointer:
		if snap.IsNil() || foreign(t.Elem()) || live.IsNil() {
			c := reflect.New(t).Elem()
			deepCopy(c, snap, depth+1)
			live.Set(c)
			return
		}
		deepRestore(live.Elem(), snap.Elem(), depth+1)
	case reflect.Array:
		for i := 0; i < snap.Len(); i++ {
			deepRestore(live.Index(i), snap.Index(i), depth+1)
		}
	default:
		c := reflect.New(t).Elem()
		deepCopy(c, snap, depth+1)
		live.Set(c)
	}
}

// ClearMap empties a map (generated reset hooks; the builtin clear may be shadowed in the package).
func ClearMap[K comparable, V any](m map[K]V) {
	for k := range m {
		delete(m, k)
	}
}

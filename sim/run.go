//go:build verif

package verifsim

import (
	"fmt"
	"runtime"
	"sort"
	"strings"
	"sync"
	"sync/atomic"
	"time"
)

// Violation is a property violation found by an oracle.
type Violation struct {
	Property string `json:"property"`
	Check    string `json:"check"`
	Sig      string `json:"sig"`
	Detail   string `json:"detail"`
	// VerdictOnly: the violation says that the code under test gives different results for the same input
	// (time, process state or runtime randomness leaks into them); only the verdict can be expected to repeat
	// on re-execution, not the event log.
	VerdictOnly bool `json:"verdict_only,omitempty"`
}

func (v *Violation) Key() string { return v.Check + "|" + v.Sig }

type abortRun struct{}

type logEntry struct {
	step, task, seq int
	text            string
}

// Run is the context of one simulated run.
type Run struct {
	Prop string
	Lane string
	T    *Tape

	mu      sync.Mutex
	V       *Violation
	Probes  map[string]int
	Faults  map[string]int
	keepLog bool
	entries []logEntry
	taskH   map[int]*taskLog

	Steps      int           // scheduler steps
	SimTime    time.Duration // simulated time covered
	SchedHash  uint64        // hash of released (task, site) sequence
	StateHash  uint64        // engine-defined end-state hash
	Nontrivial bool
	Info       map[string]string // swarm configuration of this run (for replay files/samples)

	sched    *Sched
	mapOrder bool
	Param    string // engine-specific override of drawn choices (enumeration); part of the replay file
	SimProcs int // simulated GOMAXPROCS seen by instrumented code (0 = real)
	NonCanon map[string]int
}

type taskLog struct {
	h   uint64
	seq int
}

var cur atomic.Pointer[Run]

// Cur returns the active run, or nil.
func Cur() *Run { return cur.Load() }

func newRun(prop string, t *Tape, keepLog bool) *Run {
	return &Run{Prop: prop, T: t, Probes: map[string]int{}, Faults: map[string]int{}, keepLog: keepLog,
		taskH: map[int]*taskLog{}, Info: map[string]string{}, NonCanon: map[string]int{}}
}

// Hit counts a rare condition reached.
func (r *Run) Hit(name string) {
	r.mu.Lock()
	r.Probes[name]++
	r.mu.Unlock()
}

// Fault counts a fault that actually fired.
func (r *Run) Fault(kind string) {
	r.mu.Lock()
	r.Faults[kind]++
	r.mu.Unlock()
}

// Hit/Fault on the active run (for use from injected code without a Run).
func Hit(name string) {
	if r := cur.Load(); r != nil {
		r.Hit(name)
	}
}

const fnvOff = 14695981039346656037
const fnvPrime = 1099511628211

func fnvAdd(h uint64, s string) uint64 {
	for i := 0; i < len(s); i++ {
		h = (h ^ uint64(s[i])) * fnvPrime
	}
	return (h ^ 0xff) * fnvPrime
}

// HashStr is a convenience FNV-1a string hash.
func HashStr(parts ...string) uint64 {
	h := uint64(fnvOff)
	for _, p := range parts {
		h = fnvAdd(h, p)
	}
	return h
}

// Logf appends to the run's event log. It never draws from the tape and
// never reads a clock. Entries are attributed to the calling task and the
// current scheduler step so that the merged log is deterministic even when a
// task unblocked through a real primitive runs alongside the released task.
func (r *Run) Logf(format string, a ...any) {
	text := fmt.Sprintf(format, a...)
	task, step := 0, 0
	if s := r.sched; s != nil {
		step = int(s.stepA.Load())
		if t := s.lookup(); t != nil {
			task = t.id
		} else {
			task = -1 // scheduler / harness root
		}
	}
	r.mu.Lock()
	tl := r.taskH[task]
	if tl == nil {
		tl = &taskLog{h: fnvOff}
		r.taskH[task] = tl
	}
	tl.h = fnvAdd(tl.h, fmt.Sprintf("%d:%s", step, text))
	tl.seq++
	if r.keepLog && len(r.entries) < 4000 {
		r.entries = append(r.entries, logEntry{step, task, tl.seq, text})
	}
	r.mu.Unlock()
}

// LogHash is the deterministic digest of the event log.
func (r *Run) LogHash() uint64 {
	r.mu.Lock()
	defer r.mu.Unlock()
	ids := make([]int, 0, len(r.taskH))
	for id := range r.taskH {
		ids = append(ids, id)
	}
	sort.Ints(ids)
	h := uint64(fnvOff)
	for _, id := range ids {
		h = fnvAdd(h, fmt.Sprintf("%d=%x", id, r.taskH[id].h))
	}
	return h
}

// LogLines returns the kept log, merged in (step, task, seq) order.
func (r *Run) LogLines() []string {
	r.mu.Lock()
	defer r.mu.Unlock()
	es := append([]logEntry(nil), r.entries...)
	sort.SliceStable(es, func(i, j int) bool {
		if es[i].step != es[j].step {
			return es[i].step < es[j].step
		}
		if es[i].task != es[j].task {
			return es[i].task < es[j].task
		}
		return es[i].seq < es[j].seq
	})
	out := make([]string, len(es))
	for i, e := range es {
		if r.sched != nil {
			out[i] = fmt.Sprintf("[s%d t%d] %s", e.step, e.task, e.text)
		} else {
			out[i] = e.text
		}
	}
	return out
}

// Flag records a violation (first one wins) without unwinding.
func (r *Run) Flag(check, sig, format string, a ...any) {
	r.mu.Lock()
	if r.V == nil {
		d := fmt.Sprintf(format, a...)
		if len(d) > 4000 {
			d = d[:4000] + "…"
		}
		r.V = &Violation{Property: r.Prop, Check: check, Sig: sig, Detail: d}
	}
	r.mu.Unlock()
}

// Fail records a violation and unwinds the calling task/run.
func (r *Run) Fail(check, sig, format string, a ...any) {
	r.Flag(check, sig, format, a...)
	panic(abortRun{})
}

// FailNonRepro is Fail for a violation of reproducibility observed within one run (the same computation done
// twice gave two results).
func (r *Run) FailNonRepro(check, sig, format string, a ...any) {
	r.Flag(check, sig, format, a...)
	r.mu.Lock()
	if r.V != nil && r.V.Check == check && r.V.Sig == sig {
		r.V.VerdictOnly = true
	}
	r.mu.Unlock()
	panic(abortRun{})
}

// Failed reports whether a violation has been recorded.
func (r *Run) Failed() bool {
	r.mu.Lock()
	defer r.mu.Unlock()
	return r.V != nil
}

// panicSig turns a panic value into a stable signature: message with digits
// collapsed plus the innermost non-runtime frame's function name.
func panicSig(p any) (sig, detail string) {
	msg := fmt.Sprint(p)
	var b strings.Builder
	lastDigit := false
	for _, c := range msg {
		if c >= '0' && c <= '9' {
			if !lastDigit {
				b.WriteByte('N')
			}
			lastDigit = true
			continue
		}
		lastDigit = false
		b.WriteRune(c)
	}
	s := b.String()
	if len(s) > 80 {
		s = s[:80]
	}
	pcs := make([]uintptr, 40)
	n := runtime.Callers(3, pcs)
	frames := runtime.CallersFrames(pcs[:n])
	where := ""
	var stack []string
	for {
		f, more := frames.Next()
		if f.Function != "" {
			stack = append(stack, fmt.Sprintf("%s (%s:%d)", f.Function, f.File, f.Line))
			if where == "" && !strings.HasPrefix(f.Function, "runtime.") && !strings.Contains(f.Function, "verifsim") {
				where = f.Function
			}
		}
		if !more {
			break
		}
	}
	return s + " @" + where, msg + "\n" + strings.Join(stack, "\n")
}

// Guard runs f, converting an abortRun unwind into a normal return and any
// other panic into a "panic" violation.
func (r *Run) Guard(f func()) {
	defer func() {
		if p := recover(); p != nil {
			if _, ok := p.(abortRun); ok {
				return
			}
			sig, detail := panicSig(p)
			r.Flag("panic", sig, "%s", detail)
		}
	}()
	f()
}

var (
	resetMu sync.Mutex
	resets  []func()
)

// RegisterReset registers a function that empties process-wide caches of an
// instrumented package (generated by the instrumenter). All of them run
// before every simulated run so that a run is a function of its tape alone;
// how the caches fill up *during* the run is part of the run.
func RegisterReset(f func()) { resetMu.Lock(); resets = append(resets, f); resetMu.Unlock() }

func resetProcessState() {
	resetMu.Lock()
	fs := resets
	resetMu.Unlock()
	for _, f := range fs {
		f()
	}
}

// Zero resets a package-level variable to its zero value (generated reset hooks).
func Zero[T any](p *T) {
	var z T
	*p = z
}

// Snapshot captures the current (initial) value of a package-level variable
// and returns a function restoring it (shallow copy; generated reset hooks).
func Snapshot[T any](p *T) func() {
	v := *p
	return func() { *p = v }
}

// DrainPools empties every sync.Pool of the process (two garbage collections:
// the second one drops the victim caches). Generated reset hooks call it when
// an instrumented package has a package-level sync.Pool.
func DrainPools() {
	runtime.GC()
	runtime.GC()
}

// ResetProcessState runs every registered reset hook: the process-wide state of
// the instrumented packages is as it is in a freshly started process. The
// kernel does this before every run; a harness may do it again before a phase
// that is meant to start cold (e.g. concurrent callers hitting empty caches).
func ResetProcessState() { resetProcessState() }

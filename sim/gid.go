//go:build verif

package verifsim

import (
	"runtime"
	"unsafe"
)

// Goroutine identity. runtime.Stack costs ~100µs per call, far too slow for a
// yield point, so on amd64 the goroutine id is read directly from the g
// struct: the g pointer comes from a three-instruction assembly stub and the
// offset of the goid field is calibrated at start-up against runtime.Stack on
// several goroutines (no layout constant is hard-coded). If calibration
// fails, the slow path is used.

func getg() unsafe.Pointer

var goidOff uintptr
var fastGid bool

func slowGid() uint64 {
	var buf [64]byte
	n := runtime.Stack(buf[:], false)
	var id uint64
	for _, c := range buf[len("goroutine "):n] {
		if c < '0' || c > '9' {
			break
		}
		id = id*10 + uint64(c-'0')
	}
	return id
}

//go:nocheckptr
func readWord(g unsafe.Pointer, off uintptr) uint64 {
	return *(*uint64)(unsafe.Pointer(uintptr(g) + off))
}

func init() {
	if runtime.GOARCH != "amd64" {
		return
	}
	cand := map[uintptr]bool{}
	first := true
	for i := 0; i < 6; i++ {
		done := make(chan map[uintptr]bool)
		go func() {
			id := slowGid()
			g := getg()
			m := map[uintptr]bool{}
			for off := uintptr(0); off < 640; off += 8 {
				if readWord(g, off) == id {
					m[off] = true
				}
			}
			done <- m
		}()
		m := <-done
		if first {
			cand, first = m, false
		} else {
			for off := range cand {
				if !m[off] {
					delete(cand, off)
				}
			}
		}
	}
	if len(cand) == 1 {
		for off := range cand {
			goidOff = off
		}
		fastGid = true
	}
}

//go:nocheckptr
func gid() uint64 {
	if fastGid {
		return readWord(getg(), goidOff)
	}
	return slowGid()
}

//go:build verif

package verifsim

import (
	"encoding/json"
	"fmt"
	"os"
	"path/filepath"
	"sort"
	"strings"
	"testing"
	"time"
)

// Engine is one property's simulation: Run executes one simulated run, drawing
// every choice from r.T and reporting violations through r.Fail/r.Flag.
type Engine struct {
	Prop        string
	Level       string
	Rule        string
	Assumptions []string
	Real        []string
	Stub        []string
	Reimpl      []string
	// Run executes one run. tier is "quick" or "thorough".
	Run func(t *testing.T, r *Run, tier string)
	// Extra, if set, is called once by worker 0 after the random runs of the
	// thorough tier (systematic sweeps/enumerations). It must use exec to run.
	Extra func(t *testing.T, w *Worker)
}

// Known is an entry of /verif/known_findings.txt.
type Known struct {
	Property string `json:"property"`
	Check    string `json:"check"`
	Sig      string `json:"sig"`
	Text     string `json:"text"`
}

// Job is what the driver hands to a worker process.
type Job struct {
	Mode      string  `json:"mode"` // run | replay
	Prop      string  `json:"prop"`
	Tier      string  `json:"tier"`
	Seed      uint64  `json:"seed"`
	Worker    int     `json:"worker"`
	NWorkers  int     `json:"nworkers"`
	BudgetS   float64 `json:"budget_s"`
	MaxRuns   int     `json:"max_runs"`
	Out       string  `json:"out"`
	ReplayDir string  `json:"replay_dir"`
	Replay    string  `json:"replay"`
	Known     []Known `json:"known"`
	RecheckN  int     `json:"recheck_every"`
	Race      bool    `json:"race"`     // race-detector lane: RaceMode on, no determinism rechecks
	CurFile   string  `json:"cur_file"` // race lane: always holds the run index being executed
	OnlyIndex int64   `json:"only_index"` // race replay: repeat this run index (>= 0)
	Repeat    int     `json:"repeat"`
}

// ReplayFile is the on-disk form of a minimised failing run.
type ReplayFile struct {
	Property  string            `json:"property"`
	Lane      string            `json:"lane"`
	Tier      string            `json:"tier"`
	Seed      uint64            `json:"seed"`
	RunIndex  uint64            `json:"run_index"`
	RunSeed   uint64            `json:"run_seed"`
	Tape      []uint32          `json:"tape"`
	SchedTape []uint32          `json:"sched_tape"`
	OrigLen   int               `json:"orig_tape_len"`
	Check     string            `json:"check"`
	Sig       string            `json:"sig"`
	Detail    string            `json:"detail"`
	VerdictOnly bool            `json:"verdict_only,omitempty"` // the violation is non-reproducibility of the code under test: a replay shows it again only by chance
	Info      map[string]string `json:"info"`
	LogHash   string            `json:"log_hash"`
	Log       []string          `json:"log"`
	MinExecs  int               `json:"minimise_execs"`
	Faults    map[string]int    `json:"faults"`
	Param     string            `json:"param"`
	Path      string            `json:"-"`
}

// Found is one reported violation in a worker's result.
type Found struct {
	Violation
	Replay string `json:"replay"`
	Known  bool   `json:"known"`
	Count  int    `json:"count"`
}

// Result is a worker's output.
type Result struct {
	Prop        string            `json:"prop"`
	Worker      int               `json:"worker"`
	Runs        int               `json:"runs"`
	Extra       map[string]int    `json:"extra"`
	Steps       int64             `json:"steps"`
	SimTimeS    float64           `json:"sim_time_s"`
	WallS       float64           `json:"wall_s"`
	Probes      map[string]int    `json:"probes"`
	Faults      map[string]int    `json:"faults"`
	Lanes       map[string]int    `json:"lanes"`
	NonCanon    map[string]int    `json:"noncanonical_maps"`
	Scheds      []uint64          `json:"scheds"`
	States      []uint64          `json:"states"`
	Pairs       []uint64          `json:"pairs"`
	Nontrivial  int               `json:"nontrivial"`
	Rechecks    int               `json:"rechecks"`
	Nondet      []string          `json:"nondeterminism"`
	Found       []Found           `json:"found"`
	Samples     []json.RawMessage `json:"samples"`
	Draws       int64             `json:"draws"`
	Infra       string            `json:"infra"`
	ExtraInfo   map[string]any    `json:"extra_info"`
}

// Worker carries the state of one worker process.
type Worker struct {
	T      *testing.T
	Job    *Job
	E      *Engine
	Res    *Result
	scheds map[uint64]struct{}
	states map[uint64]struct{}
	pairs  map[uint64]struct{}
	known  map[string]Known
	seen   map[string]int // index into Res.Found
	start  time.Time
	// Param is handed to every run executed through Exec (set by Extra for enumerated runs).
	Param string
}

// Exec runs the engine once on tape tp and returns the finished run.
func (w *Worker) Exec(tp *Tape, keepLog bool) *Run {
	r := newRun(w.E.Prop, tp, keepLog)
	r.Param = w.Param
	resetProcessState()
	cur.Store(r)
	defer cur.Store(nil)
	r.Guard(func() { w.E.Run(w.T, r, w.Job.Tier) })
	return r
}

func sameViolation(a, b *Violation) bool {
	if a == nil || b == nil {
		return a == b
	}
	return a.Check == b.Check && a.Sig == b.Sig
}

// Minimise shrinks a failing pair of tapes (workload stream, scheduler stream)
// while the same (check, sig) recurs: first the scheduler stream (a simpler
// schedule), then the workload stream, then the scheduler stream again.
func (w *Worker) Minimise(tape, sched []uint32, want *Violation) ([]uint32, []uint32, int) {
	execs := 0
	maxExecs, maxTime := 1500, 45*time.Second
	if _, known := w.known[want.Key()]; known {
		maxExecs, maxTime = 150, 4*time.Second // recorded findings are only counted; keep their cost small
	}
	deadline := time.Now().Add(maxTime)
	best := [2][]uint32{tape, sched}
	try := func(si int, c []uint32) bool {
		if execs >= maxExecs || time.Now().After(deadline) {
			return false
		}
		execs++
		cand := best
		cand[si] = c
		tp := ReplayTape2(cand[0], cand[1])
		r := w.Exec(tp, false)
		if sameViolation(r.V, want) {
			best = [2][]uint32{tp.Values(), tp.SchedValues()} // consumed prefixes only
			return true
		}
		return false
	}
	if !try(0, best[0]) {
		return tape, sched, execs
	}
	shrink := func(si int) {
		// 1. truncate the tail by bisection
		lo, hi := 0, len(best[si])
		for lo < hi {
			mid := (lo + hi) / 2
			if try(si, best[si][:mid]) {
				hi = len(best[si])
				if hi > mid {
					hi = mid
				}
			} else {
				lo = mid + 1
			}
			if hi > len(best[si]) {
				hi = len(best[si])
			}
		}
		// 2. delete chunks, 3. zero chunks
		for pass := 0; pass < 2; pass++ {
			for size := len(best[si]) / 2; size >= 1; size /= 2 {
				for i := 0; i+size <= len(best[si]); {
					cur := best[si]
					var c []uint32
					if pass == 0 {
						c = append(append([]uint32(nil), cur[:i]...), cur[i+size:]...)
					} else {
						allZero := true
						for _, v := range cur[i : i+size] {
							if v != 0 {
								allZero = false
							}
						}
						if allZero {
							i += size
							continue
						}
						c = append([]uint32(nil), cur...)
						for j := i; j < i+size; j++ {
							c[j] = 0
						}
					}
					if !try(si, c) {
						i += size
					}
				}
			}
		}
		// 4. reduce single values
		for i := 0; i < len(best[si]); i++ {
			for i < len(best[si]) && best[si][i] > 0 {
				c := append([]uint32(nil), best[si]...)
				if c[i] > 1 {
					c[i] /= 2
				} else {
					c[i] = 0
				}
				if !try(si, c) {
					break
				}
			}
		}
	}
	shrink(1)
	shrink(0)
	shrink(1)
	return best[0], best[1], execs
}

func (w *Worker) absorb(r *Run) {
	res := w.Res
	res.Steps += int64(r.Steps)
	res.SimTimeS += r.SimTime.Seconds()
	res.Draws += int64(r.T.Draws)
	for k, v := range r.Probes {
		res.Probes[k] += v
	}
	for k, v := range r.Faults {
		res.Faults[k] += v
	}
	for k, v := range r.NonCanon {
		res.NonCanon[k] += v
	}
	if r.Lane != "" {
		res.Lanes[r.Lane]++
	}
	const capSet = 400000
	if len(w.scheds) < capSet {
		w.scheds[r.SchedHash^HashStr(r.Lane)] = struct{}{}
	}
	if len(w.states) < capSet {
		w.states[r.StateHash] = struct{}{}
	}
	if r.Nontrivial {
		res.Nontrivial++
		if len(w.pairs) < capSet {
			w.pairs[r.SchedHash*31+r.StateHash] = struct{}{}
		}
	}
}

// Handle processes the outcome of one run: counts it, and if it violated the
// property, minimises, writes the replay file and records the finding.
// It returns false when the worker should stop.
func (w *Worker) Handle(r *Run, runIdx, runSeed uint64) bool {
	w.absorb(r)
	if r.V == nil {
		return true
	}
	key := r.V.Key()
	if i, ok := w.seen[key]; ok {
		w.Res.Found[i].Count++
		return true
	}
	_, isKnown := w.known[key]
	tape, stape, execs := w.Minimise(r.T.Values(), r.T.SchedValues(), r.V)
	tp := ReplayTape2(tape, stape)
	fr := w.Exec(tp, true)
	if !sameViolation(fr.V, r.V) && r.V.VerdictOnly {
		// the code under test is not reproducible (that is the violation): minimisation ran on noise. Fall back to
		// the tapes of the observed execution; whether a re-execution shows the difference again is a matter of
		// chance, the observation itself stands.
		tp = ReplayTape2(r.T.Values(), r.T.SchedValues())
		for try := 0; try < 4; try++ {
			if fr = w.Exec(tp, true); sameViolation(fr.V, r.V) {
				break
			}
		}
		if !sameViolation(fr.V, r.V) {
			fr = r
		}
		execs = 0
	}
	if !sameViolation(fr.V, r.V) {
		// could not reproduce even the original: determinism defect of the machinery
		w.Res.Nondet = append(w.Res.Nondet, fmt.Sprintf("violation %s did not reproduce on re-execution (run %d)", key, runIdx))
		return false
	}
	rf := &ReplayFile{Property: w.E.Prop, Lane: fr.Lane, Tier: w.Job.Tier, Seed: w.Job.Seed, RunIndex: runIdx, RunSeed: runSeed,
		Tape: tp.Values(), SchedTape: tp.SchedValues(), OrigLen: len(r.T.Values()) + len(r.T.SchedValues()), Check: fr.V.Check, Sig: fr.V.Sig, Detail: fr.V.Detail, VerdictOnly: fr.V.VerdictOnly, Info: fr.Info,
		LogHash: fmt.Sprintf("%016x", fr.LogHash()), Log: fr.LogLines(), MinExecs: execs, Faults: fr.Faults, Param: w.Param}
	name := fmt.Sprintf("%s-%s-%d-%d.json", w.E.Prop, sanitize(fr.V.Check), w.Job.Seed, runIdx)
	if w.Param != "" {
		name = fmt.Sprintf("%s-%s-%d-%d-%s.json", w.E.Prop, sanitize(fr.V.Check), w.Job.Seed, runIdx, sanitize(w.Param))
	}
	path := filepath.Join(w.Job.ReplayDir, name)
	b, _ := json.MarshalIndent(rf, "", " ")
	os.MkdirAll(w.Job.ReplayDir, 0o755)
	os.WriteFile(path, b, 0o644)
	w.seen[key] = len(w.Res.Found)
	w.Res.Found = append(w.Res.Found, Found{Violation: *fr.V, Replay: path, Known: isKnown, Count: 1})
	unknown := 0
	for _, f := range w.Res.Found {
		if !f.Known {
			unknown++
		}
	}
	return unknown < 3
}

func sanitize(s string) string {
	var b strings.Builder
	for _, c := range s {
		if c >= 'a' && c <= 'z' || c >= 'A' && c <= 'Z' || c >= '0' && c <= '9' || c == '-' || c == '_' {
			b.WriteRune(c)
		} else {
			b.WriteByte('_')
		}
	}
	return b.String()
}

// Recheck re-executes a finished run from its recorded tape and compares the
// event-log digest and verdict (determinism self-check).
func (w *Worker) Recheck(r *Run, runIdx uint64) bool {
	w.Res.Rechecks++
	r2 := w.Exec(ReplayTape2(r.T.Values(), r.T.SchedValues()), false)
	if (r.V != nil && r.V.VerdictOnly) || (r2.V != nil && r2.V.VerdictOnly) {
		// one of the two executions caught the code under test giving two results for one input: that violation
		// (not a determinism defect of the machinery) is what explains any difference between the executions
		if r.V == nil {
			r.V = r2.V
		}
		return true
	}
	if r.V != nil && (r.V.Check == "map-order" || r.V.VerdictOnly) && sameViolation(r.V, r2.V) {
		// the violation itself says that iteration order escaped the simulator's control from that point on:
		// only the verdict can be expected to repeat
		return true
	}
	if r2.LogHash() != r.LogHash() || !sameViolation(r.V, r2.V) || r2.T.Draws != r.T.Draws {
		// find first differing log line for the report
		a := w.Exec(ReplayTape2(r.T.Values(), r.T.SchedValues()), true)
		b := w.Exec(ReplayTape2(r.T.Values(), r.T.SchedValues()), true)
		la, lb := a.LogLines(), b.LogLines()
		diff := ""
		for i := 0; i < len(la) && i < len(lb); i++ {
			if la[i] != lb[i] {
				diff = fmt.Sprintf("line %d: %q vs %q", i, la[i], lb[i])
				break
			}
		}
		w.Res.Nondet = append(w.Res.Nondet, fmt.Sprintf("run %d: log %016x vs %016x, draws %d vs %d, verdict %v vs %v; two further replays: %s (len %d vs %d)",
			runIdx, r.LogHash(), r2.LogHash(), r.T.Draws, r2.T.Draws, r.V, r2.V, diff, len(la), len(lb)))
		return false
	}
	return true
}

func (w *Worker) sample(r *Run, runIdx uint64) {
	lines := r.LogLines()
	if len(lines) > 60 {
		lines = append(lines[:60], fmt.Sprintf("… %d more lines", len(lines)-60))
	}
	m := map[string]any{"run_index": runIdx, "lane": r.Lane, "info": r.Info, "tape_len": len(r.T.Values()) + len(r.T.SchedValues()), "steps": r.Steps, "faults": r.Faults, "trace": lines}
	b, _ := json.Marshal(m)
	w.Res.Samples = append(w.Res.Samples, b)
}

// TimeUp reports whether the worker's wall-clock budget is used up.
func (w *Worker) TimeUp() bool {
	return time.Since(w.start).Seconds() >= w.Job.BudgetS
}

// WorkerMain is called from the injected TestVerifWorker of each engine.
func WorkerMain(t *testing.T, engines ...*Engine) {
	path := os.Getenv("VERIF_JOB")
	if path == "" {
		t.Skip("VERIF_JOB not set")
	}
	b, err := os.ReadFile(path)
	if err != nil {
		fmt.Println("VERIF-INFRA: cannot read job:", err)
		os.Exit(2)
	}
	var job Job
	if err := json.Unmarshal(b, &job); err != nil {
		fmt.Println("VERIF-INFRA: bad job:", err)
		os.Exit(2)
	}
	var e *Engine
	for _, x := range engines {
		if x.Prop == job.Prop {
			e = x
		}
	}
	if e == nil {
		fmt.Println("VERIF-INFRA: no engine for", job.Prop)
		os.Exit(2)
	}
	w := &Worker{T: t, Job: &job, E: e, scheds: map[uint64]struct{}{}, states: map[uint64]struct{}{}, pairs: map[uint64]struct{}{},
		known: map[string]Known{}, seen: map[string]int{}, start: time.Now()}
	w.Res = &Result{Prop: job.Prop, Worker: job.Worker, Probes: map[string]int{}, Faults: map[string]int{}, Lanes: map[string]int{},
		NonCanon: map[string]int{}, Extra: map[string]int{}, ExtraInfo: map[string]any{}}
	for _, k := range job.Known {
		if k.Property == job.Prop {
			w.known[k.Check+"|"+k.Sig] = k
		}
	}
	w.Res.ExtraInfo["rule"] = e.Rule
	w.Res.ExtraInfo["assumptions"] = e.Assumptions
	w.Res.ExtraInfo["real"] = e.Real
	w.Res.ExtraInfo["stub"] = e.Stub
	w.Res.ExtraInfo["reimpl"] = e.Reimpl
	if job.RecheckN <= 0 {
		job.RecheckN = 20
	}
	if job.Race {
		RaceMode = true
		job.RecheckN = 1 << 40
		if job.OnlyIndex >= 0 && job.Repeat > 0 {
			defer w.finish()
			for i := 0; i < job.Repeat; i++ {
				r := w.Exec(NewTape(Mix(job.Seed, job.Prop, uint64(job.OnlyIndex))), false)
				w.Res.Runs++
				w.absorb(r)
			}
			return
		}
	}
	if job.Mode == "replay" {
		w.replay()
		return
	}
	if job.NWorkers <= 0 {
		job.NWorkers = 1
	}
	defer w.finish()
	var dig *os.File
	if p := os.Getenv("VERIF_DIGESTS"); p != "" {
		dig, _ = os.Create(p)
		defer dig.Close()
	}
	for k := uint64(job.Worker); ; k += uint64(job.NWorkers) {
		if w.TimeUp() || (job.MaxRuns > 0 && w.Res.Runs >= job.MaxRuns) {
			break
		}
		if e.Extra != nil && time.Since(w.start).Seconds() >= 0.6*job.BudgetS {
			break
		}
		seed := Mix(job.Seed, job.Prop, k)
		if job.CurFile != "" {
			os.WriteFile(job.CurFile, []byte(fmt.Sprintf(`{"index": %d, "seed": %d}`, k, job.Seed)), 0o644)
		}
		keep := w.Res.Runs < 2 && job.Worker == 0 && !job.Race
		t0 := time.Now()
		r := w.Exec(NewTape(seed), keep)
		w.Res.Runs++
		if os.Getenv("VERIF_TRACE_RUNS") != "" {
			fmt.Printf("run %d: %.1fms steps=%d draws=%d lane=%s info=%v v=%v\n", k, float64(time.Since(t0).Microseconds())/1000, r.Steps, r.T.Draws, r.Lane, r.Info, r.V != nil)
		}
		if dig != nil {
			fmt.Fprintf(dig, "%d %016x %d %v\n", k, r.LogHash(), r.T.Draws, r.V != nil)
		}
		if keep {
			w.sample(r, k)
		}
		if w.Res.Runs <= 5 || w.Res.Runs%job.RecheckN == 0 {
			if !w.Recheck(r, k) {
				break
			}
		}
		if job.Race {
			w.absorb(r) // oracle verdicts of unscheduled runs are not replayable; this lane only listens to the race detector
			continue
		}
		if !w.Handle(r, k, seed) {
			break
		}
	}
	if e.Extra != nil && len(w.Res.Nondet) == 0 && !job.Race {
		e.Extra(t, w)
	}
}

func (w *Worker) finish() {
	res := w.Res
	res.WallS = time.Since(w.start).Seconds()
	for k := range w.scheds {
		res.Scheds = append(res.Scheds, k)
	}
	for k := range w.states {
		res.States = append(res.States, k)
	}
	for k := range w.pairs {
		res.Pairs = append(res.Pairs, k)
	}
	sort.Slice(res.Scheds, func(i, j int) bool { return res.Scheds[i] < res.Scheds[j] })
	sort.Slice(res.States, func(i, j int) bool { return res.States[i] < res.States[j] })
	sort.Slice(res.Pairs, func(i, j int) bool { return res.Pairs[i] < res.Pairs[j] })
	b, _ := json.Marshal(res)
	if err := os.WriteFile(w.Job.Out, b, 0o644); err != nil {
		fmt.Println("VERIF-INFRA: cannot write result:", err)
		os.Exit(2)
	}
}

// replay re-executes one replay file and prints the outcome for the driver.
func (w *Worker) replay() {
	b, err := os.ReadFile(w.Job.Replay)
	if err != nil {
		fmt.Println("VERIF-INFRA: cannot read replay file:", err)
		os.Exit(2)
	}
	var rf ReplayFile
	if err := json.Unmarshal(b, &rf); err != nil {
		fmt.Println("VERIF-INFRA: bad replay file:", err)
		os.Exit(2)
	}
	w.Job.Tier = rf.Tier
	w.Param = rf.Param
	r := w.Exec(ReplayTape2(rf.Tape, rf.SchedTape), true)
	out := map[string]any{"reproduced": false}
	if r.V != nil {
		out["check"] = r.V.Check
		out["sig"] = r.V.Sig
		out["detail"] = r.V.Detail
		if r.V.Check == rf.Check && r.V.Sig == rf.Sig {
			out["reproduced"] = true
			out["exact"] = fmt.Sprintf("%016x", r.LogHash()) == rf.LogHash || r.V.Check == "map-order" || r.V.VerdictOnly
		}
	}
	out["log"] = r.LogLines()
	jb, _ := json.Marshal(out)
	os.WriteFile(w.Job.Out, jb, 0o644)
}

// ExecOnce runs f as a single simulated run on the given tape (nil = the
// all-zero tape: first runnable task, identity map order, no faults). Used by
// reference executions in child processes.
func ExecOnce(prop string, tape []uint32, f func(r *Run)) *Run {
	r := newRun(prop, ReplayTape(tape), false)
	cur.Store(r)
	defer cur.Store(nil)
	r.Guard(func() { f(r) })
	return r
}

module verif.local/sim

go 1.23

//go:build verif

package benchseries

// C18 — comparison series depend only on the result set (seriessim): the
// simulator owns the order in which results/files are added and the iteration
// order of every hash map in benchseries (instrumented range statements).

import (
	"encoding/json"
	"fmt"
	"math"
	"os"
	"path/filepath"
	"sort"
	"strings"
	"testing"
	"time"

	"golang.org/x/perf/benchfmt"
	"golang.org/x/perf/benchproc"
	sim "verif.local/sim"
)

func sKeyCanon(k benchproc.Key) (s string) {
	defer func() {
		if recover() != nil {
			s = ""
		}
	}()
	if k.IsZero() {
		return "<zero>"
	}
	// public API only, and nothing that fills a cache of the projection (FlattenedFields and Key.String do)
	var b strings.Builder
	var walk func(fs []*benchproc.Field)
	walk = func(fs []*benchproc.Field) {
		for _, f := range fs {
			if f.IsTuple {
				walk(f.Sub)
				continue
			}
			if v := k.Get(f); v != "" {
				fmt.Fprintf(&b, "%q=%q,", f.Name, v)
			}
		}
	}
	walk(k.Projection().Fields())
	return b.String()
}

func init() {
	sim.RegisterCanon(sKeyCanon)
	// maps keyed by structs of such keys (whatever the package calls them internally) are canonicalised member by member
}

// ---- the generated result set ----

type sPoint struct { // a series point
	at      time.Time
	numHash string
	denHash string
	noDen   bool // no denominator measurements anywhere at this point (REPLACE lanes only)
}

type sMeas struct {
	unit  string
	table [2]string // goarch, goos
	bench string
	point int       // index into points (numerator role) or -1 (denominator role)
	exp   int       // experiment index
	vals  []float64 // one per result line
}

type sResult struct { // one benchmark line
	exp  int // index of the experiment it belongs to
	cfg  [][2]string
	name string
	vals []benchfmt.Value
}

type sSet struct {
	hasBaseOnly bool
	sameInstant []int // experiments that share their instant with the previous one (COMBINE sets only)
	foreign     map[string]bool // (unit, table, bench, exp) measured under a role that is neither numerator nor denominator
	sparseKeys bool // numerator results carry no denominator hash, baseline results no numerator hash/stamp
	points  []sPoint
	exps    []time.Time // experiment instants (distinct)
	expPts  [][]int     // experiment -> covered points
	expTab  [][][2]string // experiment -> tables it ran on (the same run stamp can occur on two builders)
	results []sResult
	// model: (unit, table, bench, point, exp) -> numerator values; (unit, table, bench, exp) -> denominator values
	num map[string][]float64
	den map[string][]float64
	mixedNoDen bool
	spell map[int]string // experiment index -> spelling used in the text
	pspell map[int]string
}

var sUnits = []string{"sec/op", "B/op", "widgets"}
var sBenches = []string{"Encode", "Decode/size=1", "Sort", "Hash-8"}

// spellings of one instant in the two accepted formats
func sSpellings(t time.Time) []string {
	t = t.UTC()
	est := time.FixedZone("", -5*3600)
	ist := time.FixedZone("", 5*3600+1800)
	if t.Nanosecond() != 0 {
		// only the RFC 3339 family can express a fraction of a second
		return []string{t.Format(time.RFC3339Nano), t.Format("2006-01-02T15:04:05.000000000Z"), t.Format("2006-01-02T15:04:05.000000000+00:00"),
			t.In(est).Format(time.RFC3339Nano), t.In(ist).Format("2006-01-02T15:04:05.000000000-07:00")}
	}
	out := []string{t.Format("20060102T150405"), t.Format(time.RFC3339), t.Format("2006-01-02T15:04:05+00:00"),
		t.Format("2006-01-02T15:04:05.000+00:00"), t.Format("2006-01-02T15:04:05.000000000Z")}
	out = append(out, t.In(est).Format(time.RFC3339), t.In(ist).Format("2006-01-02T15:04:05.00-07:00"))
	return out
}

// sNorm is the documented normal form: UTC, fixed +00:00 offset, fraction without trailing zeros.
func sNorm(t time.Time) string {
	t = t.UTC()
	out := t.Format("2006-01-02T15:04:05")
	if ns := t.Nanosecond(); ns != 0 {
		out += strings.TrimRight(fmt.Sprintf(".%09d", ns), "0")
	}
	return out + "+00:00"
}

func sGenSet(T *sim.Tape, allowNoDen bool) *sSet {
	s := &sSet{num: map[string][]float64{}, den: map[string][]float64{}, spell: map[int]string{}, pspell: map[int]string{}}
	base := time.Date(2021, 12, 29, 21, 32, 12, 0, time.UTC)
	np := 1 + T.Intn(4, "npoints")
	denHashes := []string{"base1", "base2"}
	for i := 0; i < np; i++ {
		at := base.Add(time.Duration(i*37+T.Intn(30, "pt-jitter")) * time.Hour)
		if T.Intn(6, "pt-fraction") == 0 {
			at = at.Add(time.Duration(1+T.Intn(999, "pt-ms")) * time.Millisecond)
		}
		p := sPoint{at: at, numHash: fmt.Sprintf("tip%d", i), denHash: denHashes[T.Intn(2, "denhash")]}
		if allowNoDen && T.Intn(8, "noden") == 0 {
			p.noDen = true
		}
		s.points = append(s.points, p)
	}
	nb := 1 + T.Intn(4, "nbench")
	nu := 1 + T.Intn(3, "nunits")
	tables := [][2]string{{"amd64", "linux"}}
	if T.Bool("two-tables") {
		tables = append(tables, [2]string{"arm64", "linux"})
	}
	mirror := T.Intn(3, "mirror") == 0 && nb >= 2
	bigSamples := T.Intn(8, "big-samples") == 0
	if bigSamples {
		nb, nu = 1, 1
	}
	ne := 0
	// every point gets 1-4 experiments; an experiment may cover a second point with the same denominator hash
	for pi := range s.points {
		k := 1 + T.Intn(4, "nexp")
		for j := 0; j < k; j++ {
			e := len(s.exps)
			at := base.Add(time.Duration(1000+e*13)*time.Hour + time.Duration(T.Intn(3600, "exp-jitter"))*time.Second)
			switch T.Intn(6, "exp-fraction") {
			case 0:
				at = at.Add(time.Duration(1+T.Intn(999, "exp-ms")) * time.Millisecond)
			case 1:
				if e > 0 {
					// a re-run within a second of the previous experiment, before or after it
					d := time.Duration(1+T.Intn(400, "exp-close-ms")) * time.Millisecond
					if T.Bool("exp-close-before") {
						d = -d
					}
					at = s.exps[e-1].Add(d)
				}
			}
			for again := true; again; {
				again = false
				for _, o := range s.exps {
					if o.Equal(at) {
						at, again = at.Add(time.Microsecond), true // experiment instants are distinct
					}
				}
			}
			atPrev := 0
			if e > 0 {
				for _, o := range s.exps {
					if o.Equal(s.exps[e-1]) {
						atPrev++
					}
				}
			}
			if !allowNoDen && e > 0 && atPrev < 4 && T.Intn(6, "same-instant-experiment") == 0 {
				// (COMBINE only, where no experiment has to win:) a second experiment at the very instant of the
				// previous one, its stamp spelled differently - still an experiment of its own
				at = s.exps[e-1]
				s.sameInstant = append(s.sameInstant, e)
			}
			s.exps = append(s.exps, at)
			pts := []int{pi}
			if !s.points[pi].noDen && T.Intn(4, "shared-baseline") == 0 {
				for pj := range s.points {
					if pj != pi && s.points[pj].denHash == s.points[pi].denHash && !s.points[pj].noDen {
						pts = append(pts, pj)
						break
					}
				}
			}
			s.expPts = append(s.expPts, pts)
			et := [][2]string{tables[T.Intn(len(tables), "table")]}
			if len(tables) > 1 && T.Intn(3, "exp-on-both-tables") == 0 {
				et = tables
			}
			s.expTab = append(s.expTab, et)
			ne++
		}
	}
	spellIdx := func(n int) int { return T.Intn(n, "spelling") }
	for e := range s.exps {
		sp := sSpellings(s.exps[e])
		s.spell[e] = sp[spellIdx(len(sp))]
	}
	for _, e := range s.sameInstant {
		sp := sSpellings(s.exps[e])
		// same instant, a spelling that no earlier experiment at this instant has: two experiments whose stamps are
		// the same text are one experiment to the builder (at most four share an instant, there are five spellings)
		used := map[string]bool{}
		for o := 0; o < e; o++ {
			if s.exps[o].Equal(s.exps[e]) {
				used[s.spell[o]] = true
			}
		}
		for i := range sp {
			if !used[sp[i]] {
				s.spell[e] = sp[i]
				break
			}
		}
	}
	for p := range s.points {
		sp := sSpellings(s.points[p].at)
		s.pspell[p] = sp[spellIdx(len(sp))]
	}
	s.sparseKeys = T.Intn(4, "sparse-keys") == 0
	s.foreign = map[string]bool{}
	foreignOnly := -1
	if nb >= 2 && T.Intn(8, "foreign-only-benchmark") == 0 {
		foreignOnly = nb - 1 // the last benchmark was only ever run by a toolchain that takes no part in the comparison
		s.hasBaseOnly = true // (keeps the incremental lane to fully compared sets)
	}
	baseOnly := -1
	if nb >= 2 && T.Intn(6, "baseline-only-benchmark") == 0 {
		baseOnly = 1 + T.Intn(nb-1, "which-baseline-only")
		s.hasBaseOnly = true
	}
	for e := range s.exps {
	  for _, tab := range s.expTab[e] {
		pts := s.expPts[e]
		var prevNum, prevDen [][]float64 // per unit, for the mirror benchmark
		for bi := 0; bi < nb; bi++ {
			if bi > 0 && T.Intn(5, "bench-missing") == 0 {
				continue
			}
			bench := sBenches[bi]
			if bi == foreignOnly {
				res := sResult{exp: e, name: bench, cfg: s.cfgFor(e, pts[0], tab, "Other", T)}
				for u := 0; u < nu; u++ {
					res.vals = append(res.vals, benchfmt.Value{Value: float64(7 + u), Unit: sUnits[u]})
					s.foreign[fmt.Sprintf("%s|%v|%s|%d", sUnits[u], tab, bench, e)] = true
				}
				s.results = append(s.results, res)
				continue
			}
			nlines := 1 + T.Intn(6, "nlines")
			if bigSamples {
				nlines = 40 + T.Intn(31, "nlines-big") // samples around the 64-value mark
			}
			scale := float64(1+T.Intn(500, "scale")) * math.Pow(10, float64(T.Intn(5, "mag")-2))
			if T.Intn(12, "tiny") == 0 {
				scale *= 1e-17 // custom fraction-per-op metrics can be this small; ratios are scale-free
			}
			mkVals := func() [][]float64 { // [unit][line]
				out := make([][]float64, nu)
				for u := range out {
					for l := 0; l < nlines; l++ {
						out[u] = append(out[u], scale*float64(u+1)*(1+float64(T.Intn(400, "noise"))/1000))
					}
				}
				return out
			}
			den := mkVals()
			// numerator and denominator often live on very different scales (a ratio far from 1 tells mixed-up samples apart)
			if f := []float64{1, 1, 0.001, 1000}[T.Intn(4, "den-factor")]; f != 1 {
				for u := range den {
					for l := range den[u] {
						den[u][l] *= f
					}
				}
			}
			zeroDen := T.Intn(14, "zero-baseline") == 0 // e.g. 0 allocs/op in every baseline run
			if zeroDen {
				for u := range den {
					for l := range den[u] {
						den[u][l] = 0
					}
				}
			}
			for pk, pi := range pts {
				if bi == baseOnly {
					break // this benchmark was only ever measured on the baseline toolchain
				}
				num := mkVals()
				if T.Intn(40, "non-finite-measurement") == 0 {
					// a failed run reported as NaN or +Inf: still a measurement of that cell
					num[T.Intn(nu, "nf-unit")][T.Intn(len(num[0]), "nf-line")] = []float64{math.NaN(), math.Inf(1)}[T.Intn(2, "nf-kind")]
				}
				if zeroDen && T.Bool("zero-numerator") {
					for u := range num {
						for l := range num[u] {
							num[u][l] = 0
						}
					}
				}
				if mirror && bi == 1 && pk == 0 && prevNum != nil && len(prevNum[0]) > 0 {
					num, den = prevDen, prevNum // the mirror image of the previous benchmark's cell
					nlines = len(num[0])
				}
				if pk == 0 {
					prevNum, prevDen = num, den
				}
				for l := 0; l < len(num[0]); l++ {
					res := sResult{exp: e, name: bench, cfg: s.cfgFor(e, pi, tab, "Tip", T)}
					for u := 0; u < nu; u++ {
						res.vals = append(res.vals, benchfmt.Value{Value: num[u][l], Unit: sUnits[u]})
						key := fmt.Sprintf("%s|%v|%s|%d|%d", sUnits[u], tab, bench, pi, e)
						s.num[key] = append(s.num[key], num[u][l])
					}
					s.results = append(s.results, res)
					if T.Intn(12, "foreign-role") == 0 {
						// the same line once more from a toolchain that is neither numerator nor denominator (or spelled
						// differently): it belongs to no sample
						twin := sResult{exp: e, name: bench, cfg: s.cfgFor(e, pi, tab, []string{"tip", "TIP", "base", "BASE", "Other", "Tip2"}[T.Intn(6, "foreign-role-v")], T)}
						for u := 0; u < nu; u++ {
							twin.vals = append(twin.vals, benchfmt.Value{Value: num[u][l] * 4096, Unit: sUnits[u]})
						}
						s.results = append(s.results, twin)
					}
				}
			}
			if s.points[pts[0]].noDen {
				continue
			}
			if allowNoDen && len(pts) == 1 && T.Intn(10, "exp-without-denominator") == 0 {
				s.mixedNoDen = true
				continue // this experiment measured no baseline for this benchmark, others at the same point may have
			}
			for l := 0; l < len(den[0]); l++ {
				res := sResult{exp: e, name: bench, cfg: s.cfgFor(e, pts[0], tab, "Base", T)}
				for u := 0; u < nu; u++ {
					res.vals = append(res.vals, benchfmt.Value{Value: den[u][l], Unit: sUnits[u]})
					key := fmt.Sprintf("%s|%v|%s|%d", sUnits[u], tab, bench, e)
					s.den[key] = append(s.den[key], den[u][l])
				}
				s.results = append(s.results, res)
			}
		}
	  }
	}
	return s
}

func (s *sSet) cfgFor(e, p int, tab [2]string, role string, T *sim.Tape) [][2]string {
	all := s.cfgAll(e, p, tab, role, T)
	if !s.sparseKeys {
		return all
	}
	// each toolchain's results carry only the keys that concern them
	var out [][2]string
	for _, kv := range all {
		if role == "Tip" && kv[0] == "denominator_hash" {
			continue
		}
		if role == "Base" && (kv[0] == "numerator_hash" || kv[0] == "numerator_stamp") {
			continue
		}
		out = append(out, kv)
	}
	return out
}

func (s *sSet) cfgAll(e, p int, tab [2]string, role string, T *sim.Tape) [][2]string {
	return [][2]string{
		{"goarch", tab[0]}, {"goos", tab[1]},
		{"runstamp", s.spell[e]},
		{"toolchain", role},
		{"numerator_hash", s.points[p].numHash},
		{"denominator_hash", s.points[p].denHash},
		{"numerator_stamp", s.pspell[p]},
		{"extra", []string{"x", "y"}[T.Intn(2, "extra")]},
	}
}

func (r *sResult) text() string {
	var b strings.Builder
	for _, kv := range r.cfg {
		fmt.Fprintf(&b, "%s: %s\n", kv[0], kv[1])
	}
	b.WriteString("\n")
	fmt.Fprintf(&b, "Benchmark%s %d", r.name, []int{1, 1, 100, 0}[(r.exp+len(r.vals))%4]) // the iteration count (0 included) says nothing about whether the line is a measurement
	for _, v := range r.vals {
		fmt.Fprintf(&b, " %v %s", v.Value, v.Unit)
	}
	b.WriteString("\n\n")
	return b.String()
}

// the filter expression of the current run and what it means for the model
type sFilter struct {
	text  string
	unit  func(u string) bool
	bench func(b string) bool // by base name
}

var sAll = func(string) bool { return true }
var sFilters = []sFilter{
	{".unit:/.*/", sAll, sAll},
	{".unit:/.*/", sAll, sAll},
	{".unit:sec/op", func(u string) bool { return u == "sec/op" }, sAll},
	{"-.unit:widgets", func(u string) bool { return u != "widgets" }, sAll},
	{".unit:(B/op OR widgets)", func(u string) bool { return u != "sec/op" }, sAll},
	{"-.name:Sort", sAll, func(b string) bool { return b != "Sort" }},
	{".unit:/.*/ AND (.name:Encode OR .name:Hash)", sAll, func(b string) bool { return b == "Encode" || strings.HasPrefix(b, "Hash") }},
	{"*", sAll, sAll},
}
var sFilt = sFilters[0]

func sOpts(withTable bool, warns *[]string) *BuilderOptions {
	o := &BuilderOptions{Filter: sFilt.text, Series: "numerator_stamp", Table: "", Experiment: "runstamp", Compare: "toolchain",
		Numerator: "Tip", Denominator: "Base", NumeratorHash: "numerator_hash", DenominatorHash: "denominator_hash", Ignore: "",
		Warn: func(format string, args ...interface{}) { *warns = append(*warns, fmt.Sprintf(format, args...)) }}
	if withTable {
		o.Table = "goarch,goos"
	}
	return o
}

func sameF(a, b float64) bool { return a == b || (math.IsNaN(a) && math.IsNaN(b)) }

// canonical dump of AllComparisonSeries output
func sDump(css []*ComparisonSeries, withResidues bool) string {
	var b strings.Builder
	for _, cs := range css {
		fmt.Fprintf(&b, "TABLE %q\n benchmarks %q\n series %q\n", cs.Unit, cs.Benchmarks, cs.Series)
		var hs []string
		for k, v := range cs.HashPairs {
			hs = append(hs, fmt.Sprintf("%s=%s/%s", k, v.NumHash, v.DenHash))
		}
		sort.Strings(hs)
		fmt.Fprintf(&b, " hashpairs %q\n", hs)
		for _, bn := range cs.Benchmarks {
			for _, sr := range cs.Series {
				c, ok := cs.ComparisonAt(bn, sr)
				if !ok {
					continue
				}
				fmt.Fprintf(&b, " cell %q %q date=%s", bn, sr, c.Date)
				if c.Numerator != nil {
					v := append([]float64(nil), c.Numerator.Values...)
					sort.Float64s(v)
					fmt.Fprintf(&b, " num=%v", v)
				}
				if c.Denominator != nil && len(c.Denominator.Values) > 0 {
					v := append([]float64(nil), c.Denominator.Values...)
					sort.Float64s(v)
					fmt.Fprintf(&b, " den=%v", v)
				} else {
					b.WriteString(" den=<nil>") // no baseline measurements at this point: a nil cell or one without values, the statement does not say which
				}
				b.WriteString("\n")
			}
		}
		if withResidues {
			fmt.Fprintf(&b, " residues %v\n", cs.Residues)
		}
	}
	return b.String()
}

// sTableSet puts the tables of a dump into a canonical order: the statement fixes which tables there are, not where
// each stands in the returned slice (that the slice order does not depend on the order of adding is checked
// separately, build against build).
func sTableSet(dump string) string {
	parts := strings.Split(dump, "TABLE ")
	sort.Strings(parts[1:])
	return strings.Join(parts, "TABLE ")
}

// reference model dump in the same format (without residues)
func (s *sSet) modelDump(withTable bool, policy int) string {
	type tk struct{ unit, table string }
	units := map[string]bool{}
	tabs := map[string]bool{}
	for k := range s.num {
		f := strings.Split(k, "|")
		units[f[0]] = true
		tabs[f[1]] = true
	}
	for k := range s.den {
		f := strings.Split(k, "|")
		units[f[0]] = true
		tabs[f[1]] = true
	}
	for k := range s.foreign {
		f := strings.Split(k, "|")
		units[f[0]] = true
		tabs[f[1]] = true
	}
	var tks []tk
	for u := range units {
		if !sFilt.unit(u) {
			continue
		}
		if !withTable {
			tks = append(tks, tk{u, ""})
			continue
		}
		for t := range tabs {
			tks = append(tks, tk{u, t})
		}
	}
	sort.Slice(tks, func(i, j int) bool {
		if tks[i].unit != tks[j].unit {
			return tks[i].unit < tks[j].unit
		}
		return tabString(tks[i].table) < tabString(tks[j].table)
	})
	var b strings.Builder
	for _, t := range tks {
		benches, sers := map[string]bool{}, map[string]bool{}
		hp := map[string]string{}
		type cell struct {
			num, den []float64
			hasDen   bool
			date     string
			latest   time.Time
		}
		cells := map[[2]string]*cell{}
		any := false
		// trials exist for every (bench, exp) with any measurement of this unit/table, numerator or denominator
		for e := range s.exps {
		  // without table keys the measurements of one experiment on several builders pool into one trial
		  groups := [][][2]string{}
		  if withTable {
			for _, et := range s.expTab[e] {
				groups = append(groups, [][2]string{et})
			}
		  } else {
			groups = append(groups, s.expTab[e])
		  }
		  for _, grp := range groups {
			if withTable && fmt.Sprint(grp[0]) != t.table {
				continue
			}
			for _, bench := range sBenches {
				if !sFilt.bench(bench) {
					continue
				}
				var den []float64
				hasDen := false
				for _, et := range grp {
					if d, ok := s.den[fmt.Sprintf("%s|%s|%s|%d", t.unit, fmt.Sprint(et), bench, e)]; ok {
						den = append(den, d...)
						hasDen = true
					}
				}
				hasAny := hasDen
				for _, et := range grp {
					if s.foreign[fmt.Sprintf("%s|%s|%s|%d", t.unit, fmt.Sprint(et), bench, e)] {
						hasAny = true // measured by some other toolchain only: no sample, but the benchmark was run on this table
					}
				}
				for _, pi := range s.expPts[e] {
					var num []float64
					ok := false
					for _, et := range grp {
						if n, have := s.num[fmt.Sprintf("%s|%s|%s|%d|%d", t.unit, fmt.Sprint(et), bench, pi, e)]; have {
							num = append(num, n...)
							ok = true
						}
					}
					if !ok {
						continue
					}
					hasAny = true
					ser, _ := NormalizeDateString(s.pspell[pi])
					_ = ser
					serS := sNorm(s.points[pi].at)
					sers[serS] = true
					dh := s.points[pi].denHash
					if !hasDen {
						dh = ""
					}
					// the denominator hash of a series point is known as soon as one of its trials has a baseline
					if prev, ok := hp[serS]; !ok || strings.HasSuffix(prev, "/") {
						hp[serS] = s.points[pi].numHash + "/" + dh
					}
					key := [2]string{bench, serS}
					c := cells[key]
					date := sNorm(s.exps[e])
					switch {
					case c == nil:
						cells[key] = &cell{num: append([]float64(nil), num...), den: append([]float64(nil), den...), hasDen: hasDen, date: date, latest: s.exps[e]}
					case policy == DUPE_REPLACE:
						if s.exps[e].After(c.latest) {
							cells[key] = &cell{num: append([]float64(nil), num...), den: append([]float64(nil), den...), hasDen: hasDen, date: date, latest: s.exps[e]}
						}
					default:
						c.num = append(c.num, num...)
						c.den = append(c.den, den...)
						if s.exps[e].After(c.latest) {
							c.latest, c.date = s.exps[e], date
						}
					}
				}
				if hasAny {
					benches[bench] = true
					any = true
				}
			}
		  }
		}
		if !any {
			continue
		}
		us := t.unit
		if ts := tabString(t.table); ts != "" {
			us += " " + ts
		}
		bl, sl := setList(benches), setList(sers)
		fmt.Fprintf(&b, "TABLE %q\n benchmarks %q\n series %q\n", us, bl, sl)
		var hs []string
		for k, v := range hp {
			hs = append(hs, k+"="+v)
		}
		sort.Strings(hs)
		fmt.Fprintf(&b, " hashpairs %q\n", hs)
		for _, bn := range bl {
			for _, sr := range sl {
				c := cells[[2]string{bn, sr}]
				if c == nil {
					continue
				}
				sort.Float64s(c.num)
				fmt.Fprintf(&b, " cell %q %q date=%s num=%v", bn, sr, c.date, c.num)
				if c.hasDen {
					sort.Float64s(c.den)
					fmt.Fprintf(&b, " den=%v", c.den)
				} else {
					b.WriteString(" den=<nil>")
				}
				b.WriteString("\n")
			}
		}
	}
	return b.String()
}

func tabString(t string) string { // "[amd64 linux]" -> "amd64 linux"
	return strings.Trim(t, "[]")
}

func setList(m map[string]bool) []string {
	var out []string
	for k := range m {
		out = append(out, k)
	}
	sort.Strings(out)
	return out
}

var c18Tmp string

// sBuild adds the set in the given order and returns the series.
// sBuild adds the results in the given order; midBuild >= 0 calls AllComparisonSeries once more after that many
// results (a long-lived Builder that is asked for its series, then fed more data).
func sBuild(t *testing.T, r *sim.Run, s *sSet, order []int, withTable bool, policy int, viaFiles bool, midBuild ...int) ([]*ComparisonSeries, string) {
	var warns []string
	b, err := NewBuilder(sOpts(withTable, &warns))
	if err != nil {
		r.Fail("harness", "newbuilder", "%v", err)
	}
	if viaFiles {
		if c18Tmp == "" {
			c18Tmp = t.TempDir()
		}
		// split the ordered results over 1-3 files at drawn points
		nf := 1 + r.T.Intn(3, "nfiles")
		var paths []string
		cut := make([]int, 0, nf)
		for i := 1; i < nf; i++ {
			cut = append(cut, r.T.Intn(len(order)+1, "split"))
		}
		sort.Ints(cut)
		cut = append(cut, len(order))
		start := 0
		for i, end := range cut {
			var txt strings.Builder
			for _, ri := range order[start:end] {
				txt.WriteString(s.results[ri].text())
			}
			p := filepath.Join(c18Tmp, fmt.Sprintf("in%d.txt", i))
			os.WriteFile(p, []byte(txt.String()), 0o644)
			paths = append(paths, p)
			start = end
		}
		if len(paths) >= 2 && r.T.Intn(5, "missing-file-probe") == 0 {
			// the same files with one that does not exist among them, given to a throw-away builder: the caller must
			// hear about it (what was read from the files before it is a partial result set, not the result set)
			var warns []string
			pb, _ := NewBuilder(sOpts(withTable, &warns))
			at := r.T.Intn(len(paths), "missing-at")
			with := append(append(append([]string(nil), paths[:at]...), filepath.Join(c18Tmp, "no-such-file.txt")), paths[at:]...)
			if err := pb.AddFiles(benchfmt.Files{Paths: with, AllowStdin: false}); err == nil {
				r.Fail("series", "missing-input-ignored", "AddFiles(%d files, the one at position %d does not exist) reported no error", len(with), at)
			}
			r.Hit("AddFiles given a file that does not exist")
		}
		if err := b.AddFiles(benchfmt.Files{Paths: paths, AllowStdin: false}); err != nil {
			r.Fail("harness", "addfiles", "%v", err)
		}
	} else {
		var txt strings.Builder
		for _, ri := range order {
			txt.WriteString(s.results[ri].text())
		}
		rd := benchfmt.NewReader(strings.NewReader(txt.String()), "set")
		nadded := 0
		for rd.Scan() {
			switch rec := rd.Result().(type) {
			case *benchfmt.Result:
				if len(midBuild) > 0 && nadded == midBuild[0] {
					if mid, err := b.AllComparisonSeries(nil, policy); err == nil {
						for _, cs := range mid {
							cs.AddSummaries(0.9, 50)
						}
					}
				}
				nadded++
				b.Add(rec)
			case *benchfmt.SyntaxError:
				r.Fail("harness", "syntax", "generated text has a syntax error: %v", rec)
			}
		}
	}
	css, err := b.AllComparisonSeries(nil, policy)
	if err != nil {
		return nil, "ERROR " + err.Error()
	}
	return css, ""
}

func c18Run(t *testing.T, r *sim.Run, tier string) {
	T := r.T
	r.OwnMapOrder(true)
	policy := DUPE_REPLACE
	r.Lane = "replace"
	if T.Bool("policy") {
		policy = DUPE_COMBINE
		r.Lane = "combine"
	}
	withTable := T.Bool("with-table")
	sFilt = sFilters[T.Intn(len(sFilters), "filter")]
	r.Logf("filter %q", sFilt.text)
	s := sGenSet(T, policy == DUPE_REPLACE)
	for i, res := range s.results {
		if i < 40 {
			r.Logf("result %d: %s %v cfg=%v", i, res.name, res.vals, res.cfg)
		}
	}
	if len(s.results) == 0 {
		return
	}
	want := s.modelDump(withTable, policy)
	norders := 2 + T.Intn(4, "norders")
	var ref string
	var refCSS []*ComparisonSeries
	for o := 0; o < norders; o++ {
		order := T.Perm(len(s.results), "add-order")
		if o == 0 {
			for i := range order {
				order[i] = i
			}
		}
		viaFiles := T.Intn(4, "via-files") == 0
		css, errs := sBuild(t, r, s, order, withTable, policy, viaFiles)
		if errs != "" {
			r.Fail("series", "unexpected-error", "AllComparisonSeries failed: %s", errs)
		}
		got := sDump(css, false)
		full := sDump(css, true)
		r.Logf("order %d (files=%v): dump hash %x", o, viaFiles, sim.HashStr(full))
		if got, want := sTableSet(got), sTableSet(want); got != want {
			sig := "differs-from-result-set"
			gl, wl := strings.Split(got, "\n"), strings.Split(want, "\n")
			first := ""
			for i := 0; i < len(gl) || i < len(wl); i++ {
				var g, w string
				if i < len(gl) {
					g = gl[i]
				}
				if i < len(wl) {
					w = wl[i]
				}
				if g != w {
					first = fmt.Sprintf("got:  %s\nwant: %s", g, w)
					switch {
					case strings.HasPrefix(w, " cell") && strings.HasPrefix(g, " cell"):
						sig = "cell-samples-differ"
					case strings.HasPrefix(w, " hashpairs"):
						sig = "hashpairs-differ"
					case strings.HasPrefix(w, " series"):
						sig = "series-axis-differs"
					}
					break
				}
			}
			if f := os.Getenv("VERIF_DEBUG_DUMP"); f != "" { // development aid: the two dumps in full
				var all strings.Builder
				for _, res := range s.results {
					all.WriteString(res.text())
				}
				os.WriteFile(f, []byte("GOT\n"+got+"\nWANT\n"+want+"\nRESULTS\n"+all.String()), 0o644)
			}
			r.Fail("series", r.Lane+"/"+sig, "series built in order %d differ from what the result set prescribes (policy %s):\n%s", o, r.Lane, first)
		}
		if o == 0 {
			ref, refCSS = full, css
		} else if full != ref {
			r.Fail("series", r.Lane+"/order-dependent", "series differ between two orders of adding the same results")
		}
	}
	// bootstrap summaries: sane and reproducible
	conf := []float64{0.5, 0.9, 0.95, 0.99}[T.Intn(4, "confidence")]
	N := []int{50, 100, 200, 50, 100, 200, 1000, 5000}[T.Intn(8, "resamples")]
	mid := -1
	if T.Intn(3, "incremental-builder") == 0 && policy == DUPE_REPLACE { // a partial set may lack denominators, which COMBINE cannot handle (documented gap)
		mid = 1 + T.Intn(len(s.results), "mid-build-at")
		r.Hit("series requested from a builder that was later fed more results")
	}
	var again []*ComparisonSeries
	if mid >= 0 {
		var errs string
		again, errs = sBuild(t, r, s, T.Perm(len(s.results), "add-order"), withTable, policy, false, mid)
		if errs != "" {
			r.Fail("series", "unexpected-error", "AllComparisonSeries failed on an incrementally fed builder: %s", errs)
		}
		if d := sDump(again, true); d != ref {
			r.Fail("series", r.Lane+"/incremental-builder-differs", "a builder asked for its series after %d results and then fed the rest gives different series than a fresh builder given the same set", mid)
		}
	} else {
		again, _ = sBuild(t, r, s, T.Perm(len(s.results), "add-order"), withTable, policy, false)
	}
	for ci, cs := range refCSS {
		// the second computation runs on a machine with another processor count
		r.SimProcs = []int{1, 2, 4}[ci%3]
		cs.AddSummaries(conf, N)
		r.SimProcs = []int{8, 1, 3}[ci%3]
		again[ci].AddSummaries(conf, N)
		r.SimProcs = 0
		for si, ser := range cs.Series {
			for bi, bn := range cs.Benchmarks {
				sum := cs.Summaries[si][bi]
				sum2 := again[ci].Summaries[si][bi]
				if sum.Present != sum2.Present || (sum.Present && !(sameF(sum.Low, sum2.Low) && sameF(sum.Center, sum2.Center) && sameF(sum.High, sum2.High))) {
					r.FailNonRepro("bootstrap", "not-reproducible", "summary of %q at %q differs between two builds of the same set: %+v vs %+v", bn, ser, *sum, *sum2)
				}
				if !sum.Present {
					continue
				}
				c, _ := cs.ComparisonAt(bn, ser)
				nv, dv := c.Numerator.Values, c.Denominator.Values
				nonFinite := false
				for _, x := range append(append([]float64(nil), nv...), dv...) {
					if math.IsNaN(x) || math.IsInf(x, 0) {
						nonFinite = true
					}
				}
				if nonFinite {
					r.Hit("bootstrap summary of a cell with a non-finite measurement")
					continue // reproducible (checked above); nothing else is said about such samples
				}
				lo, hi := nv[0]/dv[len(dv)-1], nv[len(nv)-1]/dv[0]
				tol := 1e-12 * hi
				if !(nv[0] > 0 && dv[0] > 0) {
					lo, hi = math.Inf(-1), math.Inf(1) // the attainable-range clause speaks of positive measurements; order and reproducibility hold regardless
					r.Hit("bootstrap summary of a cell with zero measurements")
				}
				if math.IsNaN(sum.Low) || math.IsNaN(sum.Center) || math.IsNaN(sum.High) {
					r.Fail("bootstrap", "summary-not-a-number", "summary of %q at %q (confidence %v, N %d): low %v centre %v high %v for num %v den %v", bn, ser, conf, N, sum.Low, sum.Center, sum.High, nv, dv)
				}
				if !(sum.Low <= sum.Center && sum.Center <= sum.High) {
					sig := "low-centre-high-order"
					if sum.Low <= sum.Center*(1+4e-16) && sum.Center <= sum.High*(1+4e-16) {
						sig = "low-centre-high-order-by-one-rounding" // percentile interpolation between two equal neighbours
					}
					r.Fail("bootstrap", sig, "summary of %q at %q (confidence %v, N %d): low %v centre %v high %v", bn, ser, conf, N, sum.Low, sum.Center, sum.High)
				}
				if sum.Low < lo-tol || sum.High > hi+tol {
					r.Fail("bootstrap", "outside-attainable-range", "summary of %q at %q (confidence %v, N %d): [%v %v %v] outside the attainable ratio range [%v, %v] of num %v den %v", bn, ser, conf, N, sum.Low, sum.Center, sum.High, lo, hi, nv, dv)
				}
				r.Hit("bootstrap summary checked")
			}
		}
	}
	// existing series handed back in (the -ji flow): tables for which the builder has no new results are carried
	// over after the recomputed ones, in the order they were given
	if T.Intn(5, "existing-lane") == 0 && len(refCSS) > 0 {
		prev, _ := sBuild(t, r, s, T.Perm(len(s.results), "add-order"), withTable, policy, false)
		for _, cs := range prev {
			cs.AddSummaries(0.9, 50) // series handed back in always carry their summaries (they come from the JSON output)
		}
		var given []*ComparisonSeries
		for i := 0; i < 3; i++ {
			u := fmt.Sprintf("zz-carried-%d", T.Intn(1000, "carried-name"))
			given = append(given, &ComparisonSeries{Unit: u, Benchmarks: []string{"B"}, Series: []string{"S"},
				Summaries: [][]*ComparisonSummary{{&ComparisonSummary{Low: 1, Center: 1, High: 1, Present: true}}}, HashPairs: map[string]ComparisonHashes{}})
		}
		perm := T.Perm(len(given), "given-order")
		var existing []*ComparisonSeries
		for _, i := range perm {
			existing = append(existing, given[i])
		}
		if policy == DUPE_REPLACE {
			existing = append(existing, prev...) // under COMBINE an old summary in a cell that gets new data is a documented gap (nil numerator)
		}
		// a table saved by an earlier run that had nothing to compare in it yet (no benchmarks, no series points, no
		// hash pairs) and now gets its first data: the outcome is what a fresh build gives
		emptyUnit := ""
		if policy != DUPE_REPLACE && T.Bool("saved-empty-table") {
			emptyUnit = refCSS[T.Intn(len(refCSS), "empty-table-unit")].Unit
			existing = append(existing, &ComparisonSeries{Unit: emptyUnit, Benchmarks: []string{}, Series: []string{}, Summaries: [][]*ComparisonSummary{}, HashPairs: map[string]ComparisonHashes{}})
		}
		var existingTwin []*ComparisonSeries // the same saved series read a second time: equal inputs for a second, independent build
		if T.Bool("existing-through-json") {
			// what -jo writes and -ji reads
			if data, err := json.Marshal(existing); err == nil {
				var back, back2 []*ComparisonSeries
				if err := json.Unmarshal(data, &back); err == nil && len(back) == len(existing) && json.Unmarshal(data, &back2) == nil {
					existing, existingTwin = back, back2
					r.Hit("existing series passed through their JSON form")
				}
			}
		}
		var warns []string
		b2, _ := NewBuilder(sOpts(withTable, &warns))
		var txt strings.Builder
		for _, res := range s.results {
			txt.WriteString(res.text())
		}
		rd := benchfmt.NewReader(strings.NewReader(txt.String()), "set")
		for rd.Scan() {
			if res, ok := rd.Result().(*benchfmt.Result); ok {
				b2.Add(res)
			}
		}
		var out []*ComparisonSeries
		var err error
		func() {
			defer func() {
				if p := recover(); p != nil {
					r.Fail("series", r.Lane+"/panic-with-existing-series", "AllComparisonSeries(existing) panicked: %v", p)
				}
			}()
			out, err = b2.AllComparisonSeries(existing, policy)
		}()
		if err != nil {
			r.Fail("series", "unexpected-error", "AllComparisonSeries(existing) failed: %v", err)
		}
		if emptyUnit != "" {
			ax := func(css []*ComparisonSeries) string {
				for _, cs := range css {
					if cs.Unit == emptyUnit {
						return fmt.Sprintf("%q %q", cs.Benchmarks, cs.Series)
					}
				}
				return "(no such table)"
			}
			if a, b := ax(out), ax(prev); a != b {
				r.Fail("series", r.Lane+"/saved-empty-table-changes-build", "with an empty saved table for %q handed in, the table has %s; a fresh build has %s", emptyUnit, a, b)
			}
		}
		var gotOrder, wantOrder []string
		for _, cs := range out {
			if strings.HasPrefix(cs.Unit, "zz-carried-") {
				gotOrder = append(gotOrder, cs.Unit)
			}
		}
		seenU := map[string]bool{}
		for _, i := range perm {
			if !seenU[given[i].Unit] { // duplicate names collapse
				wantOrder = append(wantOrder, given[i].Unit)
			}
			seenU[given[i].Unit] = true
		}
		// where they stand in the slice is not prescribed, but it is a function of the inputs: a second builder fed the
		// same results and the same saved series returns them in the same places
		if existingTwin != nil && err == nil {
			var warns2 []string
			b3, _ := NewBuilder(sOpts(withTable, &warns2))
			rd := benchfmt.NewReader(strings.NewReader(txt.String()), "set")
			for rd.Scan() {
				if res, ok := rd.Result().(*benchfmt.Result); ok {
					b3.Add(res)
				}
			}
			var out2 []*ComparisonSeries
			func() {
				defer func() { recover() }()
				out2, _ = b3.AllComparisonSeries(existingTwin, policy)
			}()
			var u1, u2 []string
			for _, cs := range out {
				u1 = append(u1, cs.Unit)
			}
			for _, cs := range out2 {
				u2 = append(u2, cs.Unit)
			}
			if out2 != nil && strings.Join(u1, "\x00") != strings.Join(u2, "\x00") {
				r.FailNonRepro("series", r.Lane+"/table-order-not-reproducible", "two builders fed the same results and the same saved series return the tables in different orders: %q vs %q", u1, u2)
			}
		}
		// each of them comes back once; where in the slice is not prescribed
		sort.Strings(gotOrder)
		sort.Strings(wantOrder)
		if len(seenU) == len(given) && strings.Join(gotOrder, ",") != strings.Join(wantOrder, ",") {
			r.Fail("series", r.Lane+"/carried-over-tables-lost", "tables without new results were handed in as %v and came back as %v", wantOrder, gotOrder)
		}
		r.Hit("existing series handed back in")
	}
	// the -ji/-jo flow over time: the series of the earlier experiments (with their summaries) are handed back in
	// when the results of the later experiments arrive; under REPLACE that must end where one build over
	// everything ends, summaries included
	everyPointCompared := !s.mixedNoDen && !s.hasBaseOnly // a point without denominator has no summary, and series handed back in consist of their summaries
	for _, p := range s.points {
		if p.noDen {
			everyPointCompared = false
		}
	}
	if policy == DUPE_REPLACE && everyPointCompared && len(s.exps) >= 2 && T.Intn(4, "incremental-existing") == 0 && len(refCSS) > 0 {
		cut := 1 + T.Intn(len(s.exps)-1, "existing-cut")
		var warns []string
		b1, _ := NewBuilder(sOpts(withTable, &warns))
		b2, _ := NewBuilder(sOpts(withTable, &warns))
		n1, n2 := 0, 0
		for _, i := range T.Perm(len(s.results), "add-order") {
			res := s.results[i]
			rd := benchfmt.NewReader(strings.NewReader(res.text()), "set")
			for rd.Scan() {
				if rr, ok := rd.Result().(*benchfmt.Result); ok {
					if res.exp < cut {
						b1.Add(rr)
						n1++
					} else {
						b2.Add(rr)
						n2++
					}
				}
			}
		}
		if n1 > 0 && n2 > 0 {
			early, err := b1.AllComparisonSeries(nil, policy)
			if err != nil {
				r.Fail("series", "unexpected-error", "AllComparisonSeries over the earlier experiments failed: %v", err)
			}
			for _, cs := range early {
				cs.AddSummaries(conf, N)
			}
			merged, err := b2.AllComparisonSeries(early, policy)
			if err != nil {
				r.Fail("series", "unexpected-error", "AllComparisonSeries(existing) failed: %v", err)
			}
			fresh0, _ := sBuild(t, r, s, T.Perm(len(s.results), "add-order"), withTable, policy, false)
			axes := func(css []*ComparisonSeries) string { // carried-over points consist of their summaries only: compare the axes, then the summaries
				var ls []string // tables without new results come after the recomputed ones: compare as a set
				for _, cs := range css {
					ls = append(ls, fmt.Sprintf("%q %q %q\n", cs.Unit, cs.Benchmarks, cs.Series))
				}
				sort.Strings(ls)
				return strings.Join(ls, "")
			}
			if a, b := axes(merged), axes(fresh0); a != b {
				r.Fail("series", "replace/existing-plus-later-differs", "the series of experiments < %d handed back in with the results of the later ones have other tables, benchmarks or series points than one build over all results\n--- merged\n%s--- one build\n%s", cut, a, b)
			}
			fresh, _ := sBuild(t, r, s, T.Perm(len(s.results), "add-order"), withTable, policy, false)
			byUnit := map[string]*ComparisonSeries{}
			for _, cs := range merged {
				byUnit[cs.Unit] = cs
			}
			for ci := range fresh {
				mcs := byUnit[fresh[ci].Unit]
				if mcs == nil {
					continue
				}
				mcs.AddSummaries(conf, N)
				fresh[ci].AddSummaries(conf, N)
				for si := range fresh[ci].Series {
					for bi := range fresh[ci].Benchmarks {
						a, b := mcs.Summaries[si][bi], fresh[ci].Summaries[si][bi]
						if a.Present != b.Present || (a.Present && !(sameF(a.Low, b.Low) && sameF(a.Center, b.Center) && sameF(a.High, b.High))) {
							r.FailNonRepro("bootstrap", "stale-summary-after-merge", "summary of %q at %q after handing the earlier series back in is %+v, over one build of all results %+v", fresh[ci].Benchmarks[bi], fresh[ci].Series[si], *a, *b)
						}
					}
				}
			}
			r.Hit("earlier series handed back in with later experiments")
		}
	}
	// concurrent callers: two tasks compute summaries for two independently built copies of the series at the
	// same time (under the seeded scheduler); each must get the sequential numbers
	if T.Intn(6, "concurrent-summaries") == 0 && len(refCSS) > 0 {
		// each task owns a builder that was filled beforehand; inside the task (no tape draws there) it asks for
		// the series and computes the summaries
		copies := make([][]*ComparisonSeries, 2)
		var builders []*Builder
		for i := 0; i < 2; i++ {
			var warns []string
			b, _ := NewBuilder(sOpts(withTable, &warns))
			var txt strings.Builder
			for _, ri := range T.Perm(len(s.results), "add-order") {
				txt.WriteString(s.results[ri].text())
			}
			rd := benchfmt.NewReader(strings.NewReader(txt.String()), "set")
			for rd.Scan() {
				if res, ok := rd.Result().(*benchfmt.Result); ok {
					b.Add(res)
				}
			}
			builders = append(builders, b)
		}
		sim.ResetProcessState() // the concurrent callers start with cold package-level caches, as in a fresh process
		r.Bubble(t, 400000, func(sc *sim.Sched) {
			for i := range builders {
				i := i
				sc.Go(fmt.Sprintf("summariser%d", i), 1, func() {
					css, err := builders[i].AllComparisonSeries(nil, policy)
					if err != nil {
						r.Flag("series", "unexpected-error", "AllComparisonSeries failed in a concurrent caller: %v", err)
						return
					}
					for _, cs := range css {
						cs.AddSummaries(conf, 50)
					}
					copies[i] = css
				})
			}
			sc.Loop()
		})
		if r.Failed() {
			return
		}
		seq, _ := sBuild(t, r, s, T.Perm(len(s.results), "add-order"), withTable, policy, false)
		for _, cs := range seq {
			cs.AddSummaries(conf, 50)
		}
		for ci := range seq {
			for si := range seq[ci].Series {
				for bi := range seq[ci].Benchmarks {
					want := seq[ci].Summaries[si][bi]
					for i, cp := range copies {
						if ci >= len(cp) || si >= len(cp[ci].Summaries) || bi >= len(cp[ci].Summaries[si]) {
							r.Fail("series", r.Lane+"/concurrent-series-differ", "series computed by task %d concurrently with another caller have a different shape than sequentially", i)
						}
						got := cp[ci].Summaries[si][bi]
						if got.Present != want.Present || !sameF(got.Low, want.Low) || !sameF(got.Center, want.Center) || !sameF(got.High, want.High) {
							r.FailNonRepro("bootstrap", "not-reproducible-under-concurrent-callers", "summary of %q at %q computed by task %d concurrently with another AddSummaries is %+v, sequentially %+v", seq[ci].Benchmarks[bi], seq[ci].Series[si], i, *got, *want)
						}
					}
				}
			}
		}
		r.Hit("summaries computed by two tasks concurrently")
	}
	// date normalisation: every spelling of an instant normalises to the same string; normalised strings sort chronologically
	var insts []time.Time
	insts = append(insts, s.exps...)
	for _, p := range s.points {
		insts = append(insts, p.at)
	}
	type ns struct {
		t time.Time
		s string
	}
	var all []ns
	for _, in := range insts {
		var first string
		for i, sp := range sSpellings(in) {
			n, err := NormalizeDateString(sp)
			if err != nil {
				r.Fail("dates", "valid-stamp-rejected", "NormalizeDateString(%q) = %v", sp, err)
			}
			if i == 0 {
				first = n
			} else if n != first {
				r.Fail("dates", "spellings-normalise-differently", "%q and %q denote the same instant but normalise to %q and %q", sSpellings(in)[0], sp, first, n)
			}
		}
		all = append(all, ns{in, first})
	}
	for i := range all {
		for j := range all {
			if all[i].t.Before(all[j].t) && !(all[i].s < all[j].s) {
				r.Fail("dates", "not-chronological", "%s is before %s but normalised %q does not sort before %q", all[i].t, all[j].t, all[i].s, all[j].s)
			}
		}
	}
	r.StateHash = sim.HashStr(ref)
	r.Nontrivial = len(s.results) >= 4 && norders >= 2
}

var c18Engine = &sim.Engine{
	Prop: "C18", Level: "exploration",
	Rule: "one run = a generated set of results (1-3 units, 1-2 tables, 1-4 benchmarks, 1-4 series points, 1-4 experiments per point, shared baselines, mirrored cells, time stamps in both accepted formats, whole seconds or fractions, experiments within one second of each other; zero-valued and baseline-only cells; one of six filter expressions) added to fresh benchseries.Builders in 2-5 drawn orders (through a real benchfmt.Reader or AddFiles over temp files split at drawn points), with the iteration order of every hash map in benchseries drawn from the tape, under one duplicate policy; the canonicalised AllComparisonSeries output must equal a reference model computed from the set and be identical across orders; bootstrap summaries (50-5000 resamples) must be ordered, within the attainable ratio range and reproducible, also when recomputed under another processor count; all spellings of every instant must normalise identically and sort chronologically; " +
		"non-trivial = at least 4 results and 2 orders; distinct = distinct canonical outputs",
	Assumptions: []string{
		"input invariants of real bent data (DESIGN.md A.4): series stamp <-> numerator hash one-to-one, denominator hash a function of the series stamp, distinct experiment instants (under COMBINE two experiments may share an instant in different spellings), every stamp parses",
		"under COMBINE every trial has a denominator (a point lacking one makes AllComparisonSeries dereference a nil cell whatever the order; recorded in DESIGN.md, not part of the property)",
		"the hash pair of a series point carries the denominator hash as soon as one of its trials has baseline measurements (REPLACE lanes mix experiments with and without a baseline)",
		"confidence >= 0.5, resample counts >= 50, positive measurements; timestamps are the workload's own, whole seconds or with a fraction, some experiments within one second of each other (the timestamp input space is not swept)",
	},
	Real: []string{"benchseries.Builder.Add/AddFiles/AllComparisonSeries/AddSummaries, NormalizeDateString", "benchfmt.Reader/Files", "benchproc projections"},
	Stub: []string{"hash-map iteration order in benchseries (verifsim.Map)", "order of adding results and file split points (tape)"},
	Run:  c18Run,
}

func TestVerifWorker(t *testing.T) {
	sim.WorkerMain(t, c18Engine)
}

//go:build verif

package app

// simsql: a database/sql driver wrapping go-sqlite3 that yields to the
// simulator before every driver call, records upload-ID allocations and
// transaction outcomes, and can inject a clean failure before a statement
// executes. Only the base driver interfaces are implemented, so database/sql
// falls back to Prepare+Exec/Query and every statement passes this seam.

import (
	"context"
	"database/sql"
	"database/sql/driver"
	"errors"
	"fmt"
	"regexp"
	"strings"
	"sync"
	"sync/atomic"

	sqlite3 "github.com/mattn/go-sqlite3"
	sim "verif.local/sim"
)

var errSQLInjected = errors.New("verifsim: injected SQL failure")

type sqlEvent struct {
	step  int
	kind  string // "alloc", "commit", "rollback", "insert-records", "lock-conflict"
	id    string
	conn  int
	err   string
}

type simSQL struct {
	r      *sim.Run
	inner  *sqlite3.SQLiteDriver
	dsn    string
	mu     sync.Mutex
	events []sqlEvent
	nconn  int
	// failAt >= 0: the failAt-th statement execution (Exec/Query) fails cleanly before it runs.
	failAt  int
	execN   int
	dead    atomic.Bool // crash: every call fails
}

var uploadsInsertRE = regexp.MustCompile(`(?i)\binto\s+uploads\b`)
var recordsInsertRE = regexp.MustCompile(`(?i)\binto\s+records\b`)

func (d *simSQL) event(e sqlEvent) {
	e.step = d.r.Step()
	d.mu.Lock()
	d.events = append(d.events, e)
	d.mu.Unlock()
}

// Connector
func (d *simSQL) Connect() (driver.Conn, error) { return d.Open(d.dsn) }

func (d *simSQL) Open(name string) (driver.Conn, error) {
	if d.dead.Load() {
		return nil, errSQLInjected
	}
	c, err := d.inner.Open(name)
	if err != nil {
		return nil, err
	}
	d.mu.Lock()
	d.nconn++
	n := d.nconn
	d.mu.Unlock()
	return &simConn{d: d, c: c, n: n}, nil
}

type simConn struct {
	d  *simSQL
	c  driver.Conn
	n  int
	tx bool
	// pendingAlloc is the upload ID inserted in the current transaction, if any.
	pendingAlloc string
	wroteRecords bool
}

func (c *simConn) lockErr(err error) error {
	if err != nil && (strings.Contains(err.Error(), "locked") || strings.Contains(err.Error(), "busy")) {
		c.d.r.Hit("SQLite lock conflict between concurrent requests")
		c.d.event(sqlEvent{kind: "lock-conflict", conn: c.n, err: err.Error()})
	}
	return err
}

func (c *simConn) Prepare(query string) (driver.Stmt, error) {
	if c.d.dead.Load() {
		return nil, errSQLInjected
	}
	st, err := c.c.Prepare(query)
	if err != nil {
		return nil, c.lockErr(err)
	}
	return &simStmt{c: c, st: st, q: query}, nil
}

func (c *simConn) Close() error { return c.c.Close() }

func (c *simConn) Begin() (driver.Tx, error) {
	sim.Yield("sql:begin")
	if c.d.dead.Load() {
		return nil, errSQLInjected
	}
	tx, err := c.c.Begin()
	if err != nil {
		return nil, c.lockErr(err)
	}
	c.tx = true
	c.pendingAlloc, c.wroteRecords = "", false
	return &simTx{c: c, tx: tx}, nil
}

type simTx struct {
	c  *simConn
	tx driver.Tx
}

func (t *simTx) Commit() error {
	sim.Yield("sql:commit")
	if t.c.d.dead.Load() {
		t.tx.Rollback()
		return errSQLInjected
	}
	err := t.tx.Commit()
	t.c.tx = false
	if err == nil {
		if t.c.pendingAlloc != "" {
			t.c.d.event(sqlEvent{kind: "alloc", id: t.c.pendingAlloc, conn: t.c.n})
		}
		if t.c.wroteRecords {
			t.c.d.event(sqlEvent{kind: "commit", conn: t.c.n})
		}
	} else {
		t.c.lockErr(err)
		t.c.d.event(sqlEvent{kind: "commit-failed", conn: t.c.n, err: err.Error()})
	}
	return err
}

func (t *simTx) Rollback() error {
	sim.Yield("sql:rollback")
	err := t.tx.Rollback()
	t.c.tx = false
	t.c.d.event(sqlEvent{kind: "rollback", conn: t.c.n})
	return err
}

type simStmt struct {
	c  *simConn
	st driver.Stmt
	q  string
}

func (s *simStmt) Close() error  { return s.st.Close() }
func (s *simStmt) NumInput() int { return s.st.NumInput() }

func (s *simStmt) inject() error {
	d := s.c.d
	if d.dead.Load() {
		return errSQLInjected
	}
	d.mu.Lock()
	n := d.execN
	d.execN++
	fail := d.failAt >= 0 && n == d.failAt
	d.mu.Unlock()
	if fail {
		d.r.Fault("sql-statement-failure")
		return errSQLInjected
	}
	return nil
}

func (s *simStmt) Exec(args []driver.Value) (driver.Result, error) {
	sim.Yield("sql:exec")
	if err := s.inject(); err != nil {
		return nil, err
	}
	res, err := s.st.Exec(args)
	if err != nil {
		return nil, s.c.lockErr(err)
	}
	if uploadsInsertRE.MatchString(s.q) && len(args) > 0 {
		id := fmt.Sprint(args[0])
		if s.c.tx {
			s.c.pendingAlloc = id
		} else {
			s.c.d.event(sqlEvent{kind: "alloc", id: id, conn: s.c.n})
		}
	}
	if recordsInsertRE.MatchString(s.q) {
		s.c.wroteRecords = true
		if !s.c.tx {
			s.c.d.event(sqlEvent{kind: "commit", conn: s.c.n})
		}
	}
	return res, nil
}

func (s *simStmt) Query(args []driver.Value) (driver.Rows, error) {
	sim.Yield("sql:query")
	if err := s.inject(); err != nil {
		return nil, err
	}
	rows, err := s.st.Query(args)
	if err != nil {
		return nil, s.c.lockErr(err)
	}
	return &simRows{c: s.c, rows: rows}, nil
}

type simRows struct {
	c    *simConn
	rows driver.Rows
	n    int
}

func (r *simRows) Columns() []string { return r.rows.Columns() }
func (r *simRows) Close() error      { return r.rows.Close() }
func (r *simRows) Next(dest []driver.Value) error {
	// yield every 16 rows: enough to interleave long scans without drowning the schedule
	if r.n%16 == 0 {
		sim.Yield("sql:next")
	}
	r.n++
	if r.c.d.dead.Load() {
		return errSQLInjected
	}
	err := r.rows.Next(dest)
	if err != nil {
		return r.c.lockErr(err)
	}
	return nil
}

var simSQLCounter atomic.Int64

// newSimSQL opens a fresh shared-cache in-memory database behind the seam.
func newSimSQL(r *sim.Run) (*simSQL, *sql.DB) {
	n := simSQLCounter.Add(1)
	d := &simSQL{r: r, failAt: -1,
		dsn: fmt.Sprintf("file:verif%d?mode=memory&cache=shared&_busy_timeout=0", n)}
	d.inner = &sqlite3.SQLiteDriver{ConnectHook: func(c *sqlite3.SQLiteConn) error {
		_, err := c.Exec("PRAGMA foreign_keys = ON;", nil)
		return err
	}}
	return d, sql.OpenDB(simConnector{d})
}

type simConnector struct{ d *simSQL }

func (c simConnector) Connect(context.Context) (driver.Conn, error) {
	return c.d.Connect()
}
func (c simConnector) Driver() driver.Driver { return c.d }

//go:build verif

package app

// storesim: real storage.Client -> simulated transport -> real App handlers ->
// real db.DB over database/sql -> simsql seam -> real SQLite, with SimFS and a
// simulated clock, all under the seeded scheduler. Serves C19 (fault-free
// lanes) and C20 (fault lanes and single-fault enumeration).

import (
	"context"
	"os"
	"path/filepath"
	"database/sql"
	"encoding/json"
	"fmt"
	"bytes"
	"io"
	"log"
	"mime/quotedprintable"
	"net/http"
	"net/url"
	"regexp"
	"sort"
	"strconv"
	"strings"
	"sync/atomic"
	"testing"
	"time"

	anapp "golang.org/x/perf/analysis/app"
	"golang.org/x/perf/storage"
	"golang.org/x/perf/storage/db"
	"golang.org/x/perf/storage/query"
	sim "verif.local/sim"
)

type vsFault struct {
	Kind  string `json:"kind"`  // "", nobench, badfield, abort, cut, create, write, short-write, close, auth
	File  int    `json:"file"`  // file/part index
	Pos   int    `json:"pos"`   // write index / byte offset / bytes of the file sent before abort
	Stick bool   `json:"stick"` // sticky write error
}

type vsAttempt struct {
	client    string
	files     []vsFileSpec
	fault     vsFault
	startStep int
	endStep   int
	startTime time.Time
	endTime   time.Time
	dayLo     string
	dayHi     string
	status    int    // server status (0 = transport error)
	body      string // server response body
	clientErr error
	id        string // from the response
	fileIDs   []string
	advance   time.Duration // clock advance by the client in mid-upload
	advAfter  int           // after this many files
	cutClass  string        // cut-eof: where in the multipart stream the body ended
	cutInFile bool          // ... and whether that was inside the content of a file part
	cutPart   int           // ... and the index of that part
	committed bool          // the client got as far as calling Commit
	extended  bool          // overlapped an extended-lane fault (SQL statement failure, crash-restart): restricted oracle
}

type vsFileSpec struct {
	name string
	text string
	qp   bool // sent in quoted-printable transfer encoding
}

type vsClient struct {
	name string
	tr   *vsClientTransport
	c    *storage.Client
}

// vsClientTransport stamps the client name on requests and records the server status.
type vsClientTransport struct {
	inner  *simTransport
	name   string
	status int
	body   string
}

func (t *vsClientTransport) RoundTrip(req *http.Request) (*http.Response, error) {
	req.Header.Set("X-Verif-Client", t.name)
	resp, err := t.inner.RoundTrip(req)
	if err != nil {
		t.status, t.body = 0, err.Error()
		return nil, err
	}
	b, _ := io.ReadAll(resp.Body)
	resp.Body = io.NopCloser(strings.NewReader(string(b)))
	t.status, t.body = resp.StatusCode, string(b)
	return resp, nil
}

type vsEnv struct {
	t     *testing.T
	r     *sim.Run
	s     *sim.Sched
	T     *sim.Tape
	sql   *simSQL
	sdb   *sql.DB
	db    *db.DB
	fs    *simFS
	tr    *simTransport
	app   *App
	model *vsModel
	skew  atomic.Int64 // nanoseconds added to the fake clock by db.now
	auth  map[string]bool // client -> fail auth on next request
	// per-client SimFS faults are keyed by the "by" label
	lane     string
	checker  *vsClient
	allocSeen int // alloc events already checked
	idsSeen  map[string]bool
	lastSeq  map[string]int // day -> last sequence number allocated
	failedIDs map[string]bool
	queriesRun int
	anchor    interface{ Close() error } // keeps the shared in-memory database alive across a crash-restart
	restarts  int
}

var (
	vsTmp  string
	vsTmpN int
)

var idRE = regexp.MustCompile(`^(\d{8})\.(\d+)$`)

func (e *vsEnv) now() time.Time { return time.Now().Add(time.Duration(e.skew.Load())) }

func (e *vsEnv) setup(personality int) {
	r := e.r
	log.SetOutput(io.Discard)
	e.sql, e.sdb = newSimSQL(r)
	d, err := db.VerifOpen(e.sdb)
	if err != nil {
		r.Fail("harness", "db-open", "cannot open database: %v", err)
	}
	e.db = d
	if c, err := e.sql.inner.Open(e.sql.dsn); err == nil {
		e.anchor = c
	}
	db.VerifSetNow(e.now)
	e.fs = newSimFS(r, personality)
	e.auth = map[string]bool{}
	e.app = &App{DB: d, FS: e.fs, Auth: func(w http.ResponseWriter, req *http.Request) (string, error) {
		sim.Yield("auth")
		c := req.Header.Get("X-Verif-Client")
		if e.auth[c] {
			e.auth[c] = false
			r.Fault("auth-error")
			return "", fmt.Errorf("verifsim: auth rejected")
		}
		if c == "anon" {
			return "", nil
		}
		return c, nil
	}}
	// the optional link to the analysis front end: absent, ordinary, or a base that is no valid URL by itself
	e.app.ViewURLBase = []string{"", "https://perf.example/search?q=upload:", "https://perf.example/100%/search?q=upload:"}[e.T.Intn(3, "view-url-base")]
	mux := http.NewServeMux()
	e.app.RegisterOnMux(mux)
	e.tr = &simTransport{r: r, s: e.s, handler: mux, cuts: map[string]armedCut{}, lastCutClass: map[string]string{}, lastCutInFile: map[string]bool{}, lastCutPart: map[string]int{}}
	e.tr.chunkMax = []int{0, 0, 1, 7, 64, 1000}[e.T.Intn(6, "body-chunking")]
	e.model = &vsModel{}
	e.idsSeen = map[string]bool{}
	e.lastSeq = map[string]int{}
	e.failedIDs = map[string]bool{}
	e.checker = e.newClient("checker")
}

func (e *vsEnv) teardown() {
	db.VerifSetNow(nil)
	if e.db != nil {
		e.db.Close()
	}
	if e.anchor != nil {
		e.anchor.Close()
	}
}

// crashRestart kills the server incarnation (every seam of it fails from now on, open
// transactions are rolled back by closing the connections) and starts a new one on the
// same database and file store. Must be called by a task.
func (e *vsEnv) crashRestart() {
	r := e.r
	r.Fault("server-crash-restart")
	r.Logf("server crash")
	e.tr.mu.Lock()
	e.tr.dead = true
	e.tr.mu.Unlock()
	e.sql.dead.Store(true)
	e.fs.mu.Lock()
	e.fs.dead = true
	e.fs.mu.Unlock()
	// let the in-flight handlers run into the dead seams and unwind
	for i := 0; i < 20000 && e.tr.inflight.Load() > 0; i++ {
		sim.Blocked() // run only when nothing else can
		sim.Yield("crash:drain")
	}
	if e.tr.inflight.Load() > 0 {
		r.Fail("liveness", "handlers-stuck-after-crash", "%d request handlers did not finish after every seam started failing", e.tr.inflight.Load())
	}
	old := e.db
	e.sql.dead.Store(false) // closing prepared statements goes through the driver
	old.Close()
	e.sdb = sql.OpenDB(simConnector{e.sql})
	d, err := db.VerifOpen(e.sdb)
	if err != nil {
		r.Fail("liveness", "restart-fails", "the restarted server cannot open the database: %v", err)
	}
	e.db = d
	e.app.DB = d
	e.fs.mu.Lock()
	e.fs.dead = false
	e.fs.mu.Unlock()
	e.tr.mu.Lock()
	e.tr.dead = false
	e.tr.mu.Unlock()
	e.restarts++
	r.Logf("server restarted")
}

func (e *vsEnv) newClient(name string) *vsClient {
	ct := &vsClientTransport{inner: e.tr, name: name}
	return &vsClient{name: name, tr: ct, c: &storage.Client{BaseURL: "http://sim", HTTPClient: &http.Client{Transport: ct}}}
}

func dayOf(t time.Time) string { return t.UTC().Format("20060102") }

// upload performs one upload attempt as the calling task.
func (e *vsEnv) upload(c *vsClient, a *vsAttempt) {
	r := e.r
	a.client = c.name
	a.startStep, a.startTime, a.dayLo = r.Step(), time.Now(), dayOf(e.now())
	// arm faults
	ft := fsFault{}
	switch a.fault.Kind {
	case "create":
		ft = fsFault{kind: "create", file: a.fault.File}
	case "write", "short-write":
		ft = fsFault{kind: a.fault.Kind, file: a.fault.File, write: a.fault.Pos, sticky: a.fault.Stick}
	case "close":
		ft = fsFault{kind: "close", file: a.fault.File}
	case "disk-full":
		ft = fsFault{kind: "disk-full", file: a.fault.File}
		if _, err := os.Stat("/dev/full"); err != nil || e.fs.inner == nil {
			ft = fsFault{kind: "write", file: a.fault.File, write: 0, sticky: true} // other personalities: every write fails
		}
	case "auth":
		e.auth[c.name] = true
	case "cut", "cut-eof":
		e.tr.mu.Lock()
		e.tr.cuts[c.name] = armedCut{a.fault.Pos, a.fault.Kind == "cut-eof"}
		e.tr.mu.Unlock()
	}
	e.fs.armClient(c.name, ft)
	r.Logf("%s: upload start files=%d fault=%+v", c.name, len(a.files), a.fault)
	for i, f := range a.files {
		r.Logf("%s: file %d name=%q text=%q", c.name, i, f.name, clipS(f.text))
	}
	ctx := context.Background()
	u := c.c.NewUpload(ctx)
	failed := false
	aborted := false
	for i, f := range a.files {
		if a.fault.Kind == "badfield" && a.fault.File == i {
			// protocol violation: an unexpected form field (sent through the same multipart stream)
			sim.Yield("client:badfield")
			r.Fault("unexpected-form-field")
			if a.fault.Stick {
				u.VerifWriteFileField("bogus", "extra.txt", "BenchmarkBogus 1 1 ns/op\n") // a field of another name that looks like a file
			} else {
				vsWriteField(u, []string{"bogus", "Commit", "COMMIT", "File"}[a.fault.Pos%4], "1")
			}
		}
		if a.fault.Kind == "abort" && a.fault.File == i && a.fault.Pos == 0 {
			r.Fault("client-abort")
			a.clientErr = u.Abort()
			aborted = true
			break
		}
		sim.Yield("client:create-file")
		var w io.Writer
		var err error
		data := []byte(f.text)
		if f.qp {
			w, err = u.VerifCreateQPFile(f.name)
			var enc bytes.Buffer
			qw := quotedprintable.NewWriter(&enc)
			qw.Binary = true // every byte, line breaks included, comes back as it was
			qw.Write(data)
			qw.Close()
			data = enc.Bytes()
			r.Hit("file part sent in quoted-printable transfer encoding")
		} else {
			w, err = u.CreateFile(f.name)
		}
		if err != nil {
			failed = true
			break
		}
		sent := 0
		for sent < len(data) {
			n := len(data) - sent
			if c := 1 + e.T.Intn(2048, "client-chunk"); c < n {
				n = c
			}
			if a.fault.Kind == "abort" && a.fault.File == i && a.fault.Pos > 0 && sent+n > a.fault.Pos {
				n = a.fault.Pos - sent
				if n <= 0 {
					break
				}
			}
			sim.Yield("client:write")
			if _, err := w.Write(data[sent : sent+n]); err != nil {
				failed = true
				break
			}
			sent += n
			if a.fault.Kind == "abort" && a.fault.File == i && a.fault.Pos > 0 && sent >= a.fault.Pos {
				break
			}
		}
		if failed {
			break
		}
		if a.fault.Kind == "abort" && a.fault.File == i && a.fault.Pos > 0 {
			r.Fault("client-abort-mid-file")
			a.clientErr = u.Abort()
			aborted = true
			break
		}
		if a.advance > 0 && a.advAfter == i {
			r.Fault("clock-advance-mid-upload")
			e.s.Advance(a.advance)
		}
	}
	var st *storage.UploadStatus
	switch {
	case aborted:
	case failed:
		a.clientErr = u.Abort()
		if a.clientErr == nil {
			a.clientErr = fmt.Errorf("write to upload stream failed")
		}
	default:
		if a.fault.Kind == "badfield" && a.fault.File >= len(a.files) {
			sim.Yield("client:badfield")
			r.Fault("unexpected-form-field")
			if a.fault.Stick {
				u.VerifWriteFileField("bogus", "extra.txt", "BenchmarkBogus 1 1 ns/op\n")
			} else {
				vsWriteField(u, "bogus", "1")
			}
		}
		sim.Yield("client:commit")
		a.committed = true
		st, a.clientErr = u.Commit()
	}
	a.status, a.body = c.tr.status, c.tr.body
	if a.fault.Kind == "cut-eof" || a.fault.Kind == "cut" {
		e.tr.mu.Lock()
		a.cutClass = e.tr.lastCutClass[c.name]
		a.cutInFile = e.tr.lastCutInFile[c.name]
		a.cutPart = e.tr.lastCutPart[c.name]
		delete(e.tr.cuts, c.name)
		e.tr.mu.Unlock()
	}
	if st != nil {
		a.id, a.fileIDs = st.UploadID, st.FileIDs
		want := ""
		if e.app.ViewURLBase != "" {
			want = e.app.ViewURLBase + url.QueryEscape(st.UploadID)
		}
		if st.ViewURL != want {
			r.Fail("client-view", "view-url-wrong", "%s: upload %s answered with view URL %q, want %q", c.name, st.UploadID, st.ViewURL, want)
		}
	}
	a.endStep, a.endTime, a.dayHi = r.Step(), time.Now(), dayOf(e.now())
	e.fs.armClient(c.name, fsFault{})
	e.auth[c.name] = false // a fault armed for this attempt never outlives it (the request may not have reached the handler)
	r.Logf("%s: upload end status=%d id=%q clientErr=%v", c.name, a.status, a.id, a.clientErr != nil)
}

// vsWriteField sends a form field through the upload's multipart writer.
func vsWriteField(u *storage.Upload, name, val string) {
	u.VerifWriteField(name, val)
}

// settle is called at a quiescent point after a set of attempts: it updates
// the model from the successful ones and checks every all-or-nothing clause.
func (e *vsEnv) settle(attempts []*vsAttempt, faultsOn bool) {
	r := e.r
	// --- ID history from the SQL seam (allocation = committed INSERT into Uploads)
	e.sql.mu.Lock()
	events := append([]sqlEvent(nil), e.sql.events...)
	e.sql.mu.Unlock()
	var dayLo, dayHi string
	for _, a := range attempts {
		if dayLo == "" || a.dayLo < dayLo {
			dayLo = a.dayLo
		}
		if a.dayHi > dayHi {
			dayHi = a.dayHi
		}
	}
	newIDs := map[string]bool{}
	for _, ev := range events[e.allocSeen:] {
		if ev.kind != "alloc" {
			continue
		}
		m := idRE.FindStringSubmatch(ev.id)
		if m == nil {
			r.Fail("upload-id", "malformed-id", "upload ID %q does not have the form YYYYMMDD.N", ev.id)
		}
		if e.idsSeen[ev.id] {
			r.Fail("upload-id", "id-reused", "upload ID %s was handed out twice (second allocation at step %d)", ev.id, ev.step)
		}
		e.idsSeen[ev.id] = true
		newIDs[ev.id] = true
		seq, _ := strconv.Atoi(m[2])
		if m[1] < dayLo || m[1] > dayHi {
			r.Fail("upload-id", "id-day-wrong", "upload ID %s allocated while the server clock was between %s and %s", ev.id, dayLo, dayHi)
		}
		if last, ok := e.lastSeq[m[1]]; ok && seq <= last {
			r.Fail("upload-id", "id-not-increasing", "upload ID %s allocated after %s.%d on the same day", ev.id, m[1], last)
		}
		if seq < 1 {
			r.Fail("upload-id", "malformed-id", "upload ID %s has sequence number < 1", ev.id)
		}
		e.lastSeq[m[1]] = seq
		if seq >= 10 {
			r.Hit("two-digit sequence number on one day")
		}
	}
	e.allocSeen = len(events)
	// --- per attempt
	for _, a := range attempts {
		ok := a.status == 200
		if ok && a.fault.Kind == "cut-eof" && a.cutClass != "" && a.cutClass != "after-final-delimiter" {
			r.Fail("all-or-nothing", "cleanly-truncated-body-committed/"+a.cutClass, "%s: the request body ended early (clean EOF after %d bytes, %s) but the server committed the upload: %d %q (sent %d files)", a.client, a.fault.Pos, a.cutClass, a.status, clipS(a.body), len(a.files))
		}
		if ok && a.fault.Kind == "cut" && strings.HasPrefix(a.cutClass, "broken:") && a.cutClass != "broken:after-final-delimiter" {
			r.Fail("all-or-nothing", "truncated-body-committed", "%s: the request body broke off after %d bytes (%s) but the server committed the upload: %d %q", a.client, a.fault.Pos, a.cutClass, a.status, clipS(a.body))
		}
		// what Commit tells the client must agree with what the server did; what Abort returns after the server has
		// refused the upload as intended is not prescribed
		if ok != (a.clientErr == nil) && !a.extended && (a.committed || ok) {
			r.Fail("client-view", "client-server-disagree", "%s: server answered %d %q but the client reported err=%v", a.client, a.status, clipS(a.body), a.clientErr)
		}
		created := e.fs.createdBy(a.client)
		if !ok {
			onDisk := map[string][]byte{}
			if e.fs.inner != nil {
				onDisk = e.fs.stored()
			}
			for _, f := range created {
				if _, there := onDisk[f.name]; !f.closedOK && e.fs.inner != nil {
					f.visible = there // the real directory is the ground truth
				}
				if !f.closedOK && f.visible && !a.extended {
					r.Fail("all-or-nothing", "failed-upload-leaves-file", "%s: upload failed (%d %q, fault %+v) but the file being written, %s, is still stored (%d bytes)", a.client, a.status, clipS(a.body), a.fault, f.name, len(f.buf))
				}
			}
			// the body broke off inside the content of a file: that file was being written when the failure happened,
			// however complete its last line looked to the server
			for _, f := range created {
				// (the server numbers the stored files by the index of their part; a server that had not created that
				// file yet has nothing to remove, and the complete files before it may stay)
				if !((a.fault.Kind == "cut" || a.fault.Kind == "cut-eof") && strings.HasSuffix(a.cutClass, "in-part-body") && a.cutInFile && !a.extended) || !strings.HasSuffix(f.name, fmt.Sprintf("/%d.txt", a.cutPart)) {
					continue
				}
				vis := f.visible
				if e.fs.inner != nil {
					_, vis = onDisk[f.name]
				}
				if vis {
					r.Fail("all-or-nothing", "truncated-file-left-in-store", "%s: the request body ended inside the content of a file (%s after %d bytes) and the upload failed (%d %q), but the file being written, %s, is still stored (%d bytes)", a.client, a.cutClass, a.fault.Pos, a.status, clipS(a.body), f.name, len(f.buf))
				}
				r.Hit("file store examined for the file in which the request body broke off")
			}
			collides := false
			unstorable := -1 // first file the server rejects while reading it (over-long line, no benchmark lines)
			for i, f := range a.files {
				if _, c := vsParseFile(f.text, map[string]string{"upload": "", "upload-part": "", "upload-time": "", "upload-file": "", "by": ""}); c {
					collides = true // a file label equal to a name-derived label cannot be stored: a legitimate failure (detected when the batch of inserts is flushed, possibly only at commit)
				}
				if vsHasLongLine(f.text) {
					collides = true // a line longer than the reader's line buffer: rejecting the upload is legitimate
					r.Hit("upload with an over-long line rejected")
					if unstorable < 0 {
						unstorable = i
					}
				}
			}
			if collides {
				r.Hit("upload rejected because a file label collides with a name label or a line is too long")
			}
			// the file whose content made the upload fail was being written when the failure was detected: it must be gone
			if a.fault.Kind == "nobench" {
				if k := a.fault.File % len(a.files); unstorable < 0 || k < unstorable {
					unstorable = k
				}
			}
			if (a.fault.Kind == "" || a.fault.Kind == "nobench") && unstorable >= 0 && !a.extended {
				for _, f := range created {
					if !strings.HasSuffix(f.name, fmt.Sprintf("/%d.txt", unstorable)) {
						continue
					}
					vis := f.visible
					if e.fs.inner != nil {
						_, vis = onDisk[f.name]
					}
					if vis {
						r.Fail("all-or-nothing", "rejected-file-left-in-store", "%s: upload failed (%d %q) because file %d cannot be accepted, but %s is still stored (%d bytes)", a.client, a.status, clipS(a.body), unstorable, f.name, len(f.buf))
					}
					r.Hit("file store examined for the file that made an upload fail")
				}
			}
			if a.fault.Kind == "" && !faultsOn && e.lane == "seq" && !collides {
				r.Fail("liveness", "well-formed-upload-fails", "%s: a well-formed upload without faults or concurrency failed: %d %q", a.client, a.status, clipS(a.body))
			}
			continue
		}
		// success
		if a.fault.Kind == "cut-eof" && a.cutClass != "" && a.cutClass != "after-final-delimiter" {
			r.Fail("all-or-nothing", "cleanly-truncated-body-committed/"+a.cutClass, "%s: the request body ended early (clean EOF after %d bytes, %s) but the server committed the upload: %d %q (sent %d files)", a.client, a.fault.Pos, a.cutClass, a.status, clipS(a.body), len(a.files))
		}
		if a.fault.Kind == "abort" {
			r.Fail("all-or-nothing", "aborted-upload-committed", "%s: the client aborted the upload (after file %d, %d bytes into it) but the server committed it: %d %q", a.client, a.fault.File, a.fault.Pos, a.status, clipS(a.body))
		}
		if !idRE.MatchString(a.id) {
			r.Fail("upload-id", "malformed-id", "upload succeeded with ID %q", a.id)
		}
		if !newIDs[a.id] {
			r.Fail("upload-id", "id-not-freshly-allocated", "%s: upload succeeded with ID %s which was not allocated during this request", a.client, a.id)
		}
		delete(newIDs, a.id)
		if len(a.fileIDs) != len(a.files) {
			r.Fail("all-or-nothing", "fileids-differ", "%s: upload of %d files succeeded with file IDs %v", a.client, len(a.files), a.fileIDs)
		}
		stored := e.fs.stored()
		m := idRE.FindStringSubmatch(a.id)
		seq, _ := strconv.Atoi(m[2])
		up := &vsUpload{id: a.id, day: m[1], seq: seq, files: map[string]string{}}
		uploadTime := ""
		for i, f := range a.files {
			path := fmt.Sprintf("uploads/%s/%d.txt", a.id, i)
			content, have := stored[path]
			if !have {
				r.Fail("all-or-nothing", "stored-file-missing", "%s: upload %s succeeded but %s is not in the file store (have %v)", a.client, a.id, path, e.fs.names())
			}
			if i == 0 {
				for _, l := range strings.Split(string(content), "\n") {
					if l == "" {
						break // end of the server's metadata header
					}
					if strings.HasPrefix(l, "upload-time: ") {
						uploadTime = strings.TrimPrefix(l, "upload-time: ")
						break // the first one is the server's
					}
				}
				ts, err := time.Parse(time.RFC3339, uploadTime)
				if err != nil || ts.Before(a.startTime.Truncate(time.Second)) || ts.After(a.endTime) {
					r.Fail("all-or-nothing", "upload-time-wrong", "%s: upload-time %q outside the request interval [%s, %s]", a.client, uploadTime, a.startTime.UTC().Format(time.RFC3339), a.endTime.UTC().Format(time.RFC3339))
				}
			}
			server := map[string]string{"upload": a.id, "upload-part": fmt.Sprintf("%s/%d", a.id, i), "upload-time": uploadTime}
			base := f.name
			if j := strings.LastIndexAny(base, `/\`); j >= 0 {
				base = base[j+1:]
			}
			if base != "" {
				server["upload-file"] = base
			}
			if a.client != "anon" {
				server["by"] = a.client
			}
			var keys []string
			for k := range server {
				keys = append(keys, k)
			}
			sort.Strings(keys)
			var hdr strings.Builder
			for _, k := range keys {
				fmt.Fprintf(&hdr, "%s: %s\n", k, server[k])
			}
			want := hdr.String() + "\n" + f.text
			// a line end supplied after a last line that came without one is still the file as uploaded
			if string(content) != want && !(have && !strings.HasSuffix(want, "\n") && string(content) == want+"\n") {
				sig := "stored-file-differs"
				if strings.HasPrefix(string(content), hdr.String()) && !strings.HasPrefix(string(content), hdr.String()+"\n") {
					sig = "stored-file-header-separator-missing"
				} else if !strings.HasPrefix(string(content), hdr.String()) {
					sig = "stored-file-header-wrong"
				}
				r.Fail("all-or-nothing", sig, "%s: upload %s succeeded but %s holds\n%q\nwant\n%q", a.client, a.id, path, clipS(string(content)), clipS(want))
			}
			recs, collide := vsParseFile(f.text, server)
			if collide {
				r.Fail("all-or-nothing", "colliding-labels-accepted", "%s: upload %s succeeded although a file label collides with a name-derived label in %q", a.client, a.id, clipS(f.text))
			}
			if len(recs) == 0 {
				r.Fail("all-or-nothing", "empty-file-accepted", "%s: upload %s succeeded although file %d has no benchmark lines: %q", a.client, a.id, i, clipS(f.text))
			}
			for _, rec := range recs {
				rec.upload = a.id
			}
			up.records = append(up.records, recs...)
		}
		nstored := 0
		for p := range stored {
			if strings.HasPrefix(p, "uploads/"+a.id+"/") {
				nstored++
			}
		}
		if nstored != len(a.files) {
			r.Fail("all-or-nothing", "stored-file-count", "%s: upload %s of %d files left %d files in the store: %v", a.client, a.id, len(a.files), nstored, e.fs.names())
		}
		e.model.uploads = append(e.model.uploads, up)
	}
	for id := range newIDs {
		e.failedIDs[id] = true
	}
	e.fs.forgetCreated()
	// --- queries at the quiescent point
	var ids []string
	for id := range newIDs {
		ids = append(ids, id)
	}
	for _, a := range attempts {
		if a.status == 200 {
			ids = append(ids, a.id)
		}
	}
	sort.Strings(ids)
	for _, id := range ids {
		e.checkQuery([]vsTerm{{"upload", ':', id}}, "")
	}
}

func clipS(s string) string {
	if len(s) > 600 {
		return s[:600] + "…"
	}
	return s
}

// checkQuery runs one query through the client and compares with the model.
func (e *vsEnv) checkQuery(terms []vsTerm, forcedText string) {
	r, T := e.r, e.T
	text, words := forcedText, []string(nil)
	if text == "" {
		text, words = vsRenderQuery(T, terms, T.Intn(3, "use-builder") == 0, anapp.VerifAddToQuery, anapp.VerifParseQueryString)
		if got := query.SplitWords(text); strings.Join(got, "\x00") != strings.Join(words, "\x00") {
			r.Fail("query-words", "split-differs", "query text %q splits into %q, the words it was built from are %q", text, got, words)
		}
	}
	e.queriesRun++
	want := e.model.expectQuery(terms)
	q := e.checker.c.Query(context.Background(), text)
	var got []string
	for q.Next() {
		res := q.Result()
		got = append(got, res.Content+"\x00"+labelsKey(res.Labels)+"\x00"+labelsKey(res.NameLabels))
		if len(got) > len(want)+1000 {
			break
		}
	}
	err := q.Err()
	q.Close()
	r.Logf("query %q -> %d results (want %d) err=%v", text, len(got), len(want), err != nil)
	if err != nil {
		r.Fail("query", "query-error", "query %q (terms %v) failed: %v", text, terms, err)
	}
	sort.Strings(got)
	if strings.Join(got, "\x01") == strings.Join(want, "\x01") {
		if len(want) > 0 {
			r.Hit("non-empty query result compared")
		}
		return
	}
	// classify
	wc, gc := map[string]int{}, map[string]int{}
	for _, w := range want {
		wc[w]++
	}
	for _, g := range got {
		gc[g]++
	}
	sig, example := "results-differ", ""
	// (classification walks the sorted lists: which example is named must not depend on Go's map order)
	for _, w := range want {
		n := wc[w]
		if gc[w] < n {
			sig, example = "record-missing", w
			// same content with other labels?
			for _, g := range got {
				if strings.SplitN(g, "\x00", 2)[0] == strings.SplitN(w, "\x00", 2)[0] && wc[g] == 0 {
					sig, example = "labels-differ", w+"  GOT  "+g
					break
				}
			}
			break
		}
	}
	if sig == "results-differ" {
		for _, g := range got {
			n := gc[g]
			if wc[g] < n {
				sig, example = "record-unexpected", g
				if wc[g] > 0 {
					sig = "record-duplicated"
				}
				if strings.Contains(g, "\x00") {
					for id := range e.failedIDs {
						if strings.Contains(g, `"upload"="`+id+`"`) {
							sig = "failed-upload-visible"
						}
					}
				}
				break
			}
		}
	}
	r.Fail("query", sig, "query %q (terms %v): got %d results, want %d; e.g. %q", text, terms, len(got), len(want), strings.ReplaceAll(example, "\x00", " | "))
}

func (e *vsEnv) checkList(terms []vsTerm, limit int, extra []string) {
	r, T := e.r, e.T
	text, _ := vsRenderQuery(T, terms, T.Intn(3, "use-builder") == 0, anapp.VerifAddToQuery, anapp.VerifParseQueryString)
	want := e.model.expectList(terms, limit)
	ul := e.checker.c.ListUploads(context.Background(), text, extra, limit)
	var got []storage.UploadInfo
	for ul.Next() {
		got = append(got, ul.Info())
		if len(got) > len(e.model.uploads)+100 {
			break
		}
	}
	err := ul.Err()
	ul.Close()
	e.queriesRun++
	r.Logf("list %q limit=%d extra=%v -> %d (want %d) err=%v", text, limit, extra, len(got), len(want), err != nil)
	if err != nil {
		sig := "list-error"
		if len(want) == 0 && len(terms) > 0 {
			sig = "list-error-on-empty-result"
		}
		r.Fail("listing", sig, "ListUploads(%q, %v, %d) (terms %v) failed: %v", text, extra, limit, terms, err)
	}
	var gs, ws []string
	for _, g := range got {
		gs = append(gs, fmt.Sprintf("%s:%d", g.UploadID, g.Count))
	}
	for _, w := range want {
		ws = append(ws, fmt.Sprintf("%s:%d", w.id, w.count))
	}
	if strings.Join(gs, " ") != strings.Join(ws, " ") {
		sig := "listing-differs"
		sg, sw := append([]string(nil), gs...), append([]string(nil), ws...)
		sort.Strings(sg)
		sort.Strings(sw)
		switch {
		case strings.Join(sg, " ") == strings.Join(sw, " "):
			sig = "listing-order"
		case len(gs) == len(ws):
			sig = "listing-count-differs"
			for i := range gs {
				if strings.SplitN(gs[i], ":", 2)[0] != strings.SplitN(ws[i], ":", 2)[0] {
					sig = "listing-differs"
				}
			}
		}
		for _, g := range got {
			if e.failedIDs[g.UploadID] {
				sig = "failed-upload-listed"
			}
		}
		r.Fail("listing", sig, "ListUploads(%q, %v, %d) (terms %v): got %v, want %v", text, extra, limit, terms, gs, ws)
	}
	for _, g := range got {
		var up *vsUpload
		for _, u := range e.model.uploads {
			if u.id == g.UploadID {
				up = u
			}
		}
		for _, x := range extra {
			v, have := g.LabelValues[x]
			carried, any := false, false
			for _, rec := range up.records {
				if rv, ok := rec.all[x]; ok {
					any = true
					if rv == v {
						carried = true
					}
				}
			}
			if have && !carried {
				r.Fail("listing", "extra-label-wrong", "ListUploads extra label %q of upload %s = %q, which no record of that upload carries", x, g.UploadID, v)
			}
			if !have && any {
				r.Fail("listing", "extra-label-missing", "ListUploads extra label %q of upload %s missing although records carry it", x, g.UploadID)
			}
		}
	}
	if len(want) > 0 {
		r.Hit("non-empty listing compared")
	}
}

// battery runs n drawn queries/listings at a quiescent point.
func (e *vsEnv) battery(n int) {
	T := e.T
	if T.Intn(6, "look-alike-queries") == 0 {
		// two queries whose words read alike once quoting is gone: two terms, and one term whose value holds a
		// blank and what looks like a second term. Each means what it says whichever the server saw first.
		two := []vsTerm{{"goos", ':', "linux"}, {"goarch", ':', "amd64"}}
		one := []vsTerm{{"goos", ':', "linux goarch:amd64"}}
		if T.Bool("look-alike-order") {
			two, one = one, two
		}
		e.checkQuery(two, "")
		e.checkQuery(one, "")
		e.checkList(two, 0, nil)
		e.checkList(one, 0, nil)
		e.r.Hit("look-alike queries issued back to back")
	}
	for i := 0; i < n; i++ {
		terms := vsGenTerms(T, e.model, false)
		switch T.Intn(4, "battery-kind") {
		case 0, 1:
			e.checkQuery(terms, "")
		case 2:
			var extra []string
			for j := T.Intn(3, "nextra"); j > 0; j-- {
				extra = append(extra, sim.Pick(T, append(vsKeys, "name", "upload-file", "by", "nosuch"), "extra"))
			}
			e.checkList(terms, []int{0, 0, 1, 2, 5}[T.Intn(5, "limit")], extra)
		case 3:
			e.checkList(nil, []int{0, 1, 2, 5, 20}[T.Intn(5, "limit")], nil)
		}
	}
}

func (e *vsEnv) genAttempt(faultsOn bool, force *vsFault) *vsAttempt {
	T := e.T
	a := &vsAttempt{advAfter: -1}
	nf := 1 + T.Intn(3, "nfiles")
	opts := vsGenOpts{}
	if T.Intn(12, "many-labels") == 0 {
		opts.manyLabels, opts.maxLines = true, 300
	}
	if T.Intn(40, "collide") == 0 {
		opts.collide = true
	}
	if force == nil && T.Intn(120, "long-line") == 0 {
		opts.longLine = true
	}
	if T.Intn(25, "wide-record") == 0 {
		opts.wide = true
		e.r.Hit("record with more labels than one insert batch holds")
	}
	for i := 0; i < nf; i++ {
		name := []string{"bench.txt", "a/b/c.txt", "", `win\path.txt`, "new.txt", "old.txt", "load-50%d.txt", "100%.txt", "%s%v%!"}[T.Intn(9, "fname")]
		a.files = append(a.files, vsFileSpec{name: name, text: vsGenFile(T, opts), qp: force == nil && T.Intn(15, "quoted-printable") == 0})
	}
	if force != nil {
		a.fault = *force
	} else if !faultsOn && T.Intn(8, "client-abort") == 0 {
		// not an injected fault: the client itself gives up; its records must never become visible
		a.fault.Kind = "abort"
		a.fault.File = T.Intn(nf, "abort-file")
		if T.Bool("abort-mid-file") {
			a.fault.Pos = 1 + T.Intn(len(a.files[a.fault.File].text)+1, "abort-pos")
		}
	} else if faultsOn && T.Intn(3, "inject") != 0 {
		kinds := []string{"nobench", "badfield", "abort", "cut", "cut-eof", "create", "write", "short-write", "close", "auth", "disk-full"}
		a.fault.Kind = sim.Pick(T, kinds, "fault-kind")
		a.fault.File = T.Intn(nf, "fault-file")
		switch a.fault.Kind {
		case "badfield":
			a.fault.File = T.Intn(nf+1, "badfield-at")
			a.fault.Stick = T.Bool("badfield-with-filename")
			a.fault.Pos = T.Intn(4, "badfield-name")
		case "abort":
			if T.Bool("abort-mid-file") {
				a.fault.Pos = 1 + T.Intn(len(a.files[a.fault.File].text)+1, "abort-pos")
			}
		case "cut", "cut-eof":
			total := 300
			for _, f := range a.files {
				total += len(f.text) + 250
			}
			a.fault.Pos = T.Intn(total, "cut-pos")
		case "write", "short-write":
			a.fault.Pos = T.Intn(12, "write-index")
			a.fault.Stick = T.Bool("sticky")
		}
	}
	if a.fault.Kind == "nobench" {
		i := a.fault.File % len(a.files)
		a.files[i].text = vsGenFile(T, vsGenOpts{noBench: true})
		if T.Intn(4, "nobench-empty-file") == 0 {
			a.files[i].text = "" // a file of zero bytes is a file without benchmark lines too
		}
		e.r.Fault("file-without-benchmark-lines")
	}
	if faultsOn && T.Intn(10, "mid-advance") == 0 {
		a.advance = []time.Duration{time.Second, 13 * time.Hour, 25 * time.Hour}[T.Intn(3, "mid-advance-d")]
		a.advAfter = T.Intn(nf, "mid-advance-after")
	}
	return a
}

// clock steps between phases: forward jumps (to just before/after midnight),
// day rollovers, backward steps through db.now's skew, frozen clock.
func (e *vsEnv) clockStep(faultsOn bool) {
	T := e.T
	k := T.Intn(8, "clock")
	switch {
	case k <= 2: // frozen / same second
	case k == 3:
		e.s.Advance(time.Duration(1+T.Intn(3600, "secs")) * time.Second)
	case k == 4: // to 1s before next midnight
		now := e.now().UTC()
		next := time.Date(now.Year(), now.Month(), now.Day()+1, 0, 0, 0, 0, time.UTC)
		e.s.Advance(next.Sub(now) - time.Second)
		e.r.Hit("clock just before midnight")
	case k == 5:
		e.s.Advance(time.Duration(1+T.Intn(72, "hours")) * time.Hour)
		e.r.Hit("day rollover between uploads")
	case k == 6 && faultsOn:
		d := time.Duration(1+T.Intn(48, "back-hours")) * time.Hour
		e.skew.Add(-int64(d))
		e.r.Fault("clock-backward-step")
	default:
		e.s.Advance(2 * time.Second)
	}
}

func vsScenario(t *testing.T, r *sim.Run, s *sim.Sched, lane string, faultsOn bool, force *vsFault, census *vsCensus) {
	T := r.T
	extendedOn := lane == "faults+extended"
	e := &vsEnv{t: t, r: r, s: s, T: T, lane: lane}
	personality := fsObjectStore
	if faultsOn {
		personality = T.Intn(3, "personality")
	}
	r.Info["fs"] = []string{"object-store", "local-disk", "real storage/fs/local"}[personality]
	e.setup(personality)
	defer e.teardown()
	if personality == fsRealLocal {
		if vsTmp == "" {
			vsTmp = t.TempDir()
		}
		vsTmpN++
		dir := filepath.Join(vsTmp, fmt.Sprint(vsTmpN))
		os.MkdirAll(dir, 0o755)
		defer os.RemoveAll(dir)
		e.fs.useRealLocal(dir)
		r.Hit("real storage/fs/local under the fault wrapper")
	}
	maxClients := 1
	if lane != "seq" {
		maxClients = 3
	}
	if extendedOn {
		faultsOn = true
	}
	clients := []*vsClient{e.newClient("c1"), e.newClient("c2"), e.newClient("anon")}
	nphases := 1 + T.Intn(5, "nphases")
	manySmall := T.Intn(10, "many-small") == 0
	if manySmall {
		nphases = 11 + T.Intn(4, "many-small-n")
		r.Info["mode"] = "many-small-uploads-one-day"
	}
	if force != nil {
		nphases = 1 + T.Intn(3, "history") // history of earlier successful uploads, then the faulted attempt
	}
	nAttempts := 0
	for ph := 0; ph < nphases; ph++ {
		if !manySmall {
			e.clockStep(faultsOn && force == nil)
		}
		nc := 1
		if maxClients > 1 && !manySmall && force == nil {
			nc = 1 + T.Intn(maxClients, "nclients")
		}
		var attempts []*vsAttempt
		for i := 0; i < nc; i++ {
			var a *vsAttempt
			switch {
			case force != nil && ph == nphases-1:
				a = e.genAttempt(true, force)
			case force != nil:
				a = e.genAttempt(false, nil)
			default:
				a = e.genAttempt(faultsOn, nil)
			}
			if manySmall {
				a.files = a.files[:1]
				a.files[0].text = "BenchmarkTiny 1 1 ns/op\n"
				if a.fault.Kind != "" && a.fault.Kind != "auth" && a.fault.Kind != "create" && a.fault.Kind != "close" {
					a.fault = vsFault{}
				}
				a.fault.File = 0
			}
			attempts = append(attempts, a)
		}
		extra := 0
		if nc == 1 && !(extendedOn && T.Intn(4, "extended-single") == 0) {
			e.upload(clients[T.Intn(len(clients), "which-client")], attempts[0])
		} else {
			done := make(chan struct{}, nc+3)
			perm := T.Perm(len(clients), "client-perm")
			for i, a := range attempts {
				a, c := a, clients[perm[i]]
				s.Go("client "+c.name, 2, func() {
					defer func() { done <- struct{}{} }()
					e.upload(c, a)
				})
			}
			// extended lane: a clean SQL statement failure or a server crash-restart somewhere in this phase
			if extendedOn && T.Intn(3, "extended-fault") == 0 {
				for _, a := range attempts {
					a.extended = true
				}
				if T.Bool("crash") {
					waitFor0 := T.Intn(400, "crash-after-steps")
					extra++
					s.Go("chaos", 2, func() {
						defer func() { done <- struct{}{} }()
						for i := 0; i < waitFor0; i++ {
							sim.Yield("chaos:wait")
						}
						e.crashRestart()
					})
				} else {
					e.sql.mu.Lock()
					e.sql.failAt = e.sql.execN + T.Intn(15, "sql-fail-at")
					e.sql.mu.Unlock()
				}
			}
			// a concurrent reader adds interleaving pressure; its results are not compared mid-flight
			waitFor := len(attempts) + extra
			if T.Intn(3, "concurrent-reader") == 0 {
				waitFor++
				s.Go("reader", 2, func() {
					defer func() { done <- struct{}{} }()
					rd := e.newClient("reader")
					q := rd.c.Query(context.Background(), "upload>")
					for q.Next() {
					}
					q.Close()
				})
			}
			for i := 0; i < waitFor; i++ {
				<-done
			}
			e.sql.mu.Lock()
			e.sql.failAt = -1
			e.sql.mu.Unlock()
			if nc > 1 {
				r.Hit("concurrent uploads on a shared database")
			}
		}
		nAttempts += len(attempts)
		if census != nil && ph == nphases-1 {
			census.fromRun(e, attempts[0])
		}
		e.settle(attempts, faultsOn)
		e.battery(T.Intn(4, "battery-n"))
	}
	// final battery and bounded liveness: after the last fault a well-formed upload succeeds
	e.battery(3 + T.Intn(6, "final-battery"))
	if faultsOn {
		a := e.genAttempt(false, nil)
		a.fault = vsFault{} // the probe itself is fault-free and not aborted
		a.files = a.files[:1]
		a.files[0].text = "BenchmarkAfter 1 1 ns/op\n"
		e.upload(clients[0], a)
		if a.status != 200 {
			sig := "upload-after-faults-fails"
			if strings.Contains(a.body, "locked") {
				sig = "database-left-locked"
			}
			// a backward clock can legitimately make allocation fail (it must not collide)
			if !(e.skew.Load() < 0 && strings.Contains(a.body, "UNIQUE")) {
				r.Fail("liveness", sig, "after the last fault and with all requests drained, a well-formed upload failed: %d %q", a.status, clipS(a.body))
			}
			r.Hit("allocation refused after backward clock step")
		}
		e.settle([]*vsAttempt{a}, false)
	}
	r.StateHash = sim.HashStr(fmt.Sprint(len(e.model.uploads), nAttempts, len(e.failedIDs), e.queriesRun))
	r.Nontrivial = len(e.model.uploads) > 0 && e.queriesRun > 0
	if len(e.failedIDs) > 0 {
		r.Hit("failed upload had already been allocated an ID")
	}
}

type vsCensus struct {
	BodyBytes  int         `json:"body_bytes"`
	Files      int         `json:"files"`
	WriteCalls map[int]int `json:"write_calls"`
}

func (c *vsCensus) fromRun(e *vsEnv, a *vsAttempt) {
	e.tr.mu.Lock()
	c.BodyBytes = e.tr.lastBodyBytes
	e.tr.mu.Unlock()
	c.Files = len(a.files)
	c.WriteCalls = e.fs.writeCallsOf(a.client)
}

func vsRunLane(t *testing.T, r *sim.Run, lane string, faultsOn bool, force *vsFault, census *vsCensus) {
	r.Lane = lane
	r.Bubble(t, 2000000, func(s *sim.Sched) { // an upload with a 70 kB line takes tens of thousands of steps
		s.Go("driver", 0, func() { vsScenario(t, r, s, lane, faultsOn, force, census) })
		s.Loop()
	})
}

var vsReal = []string{"storage.Client (NewUpload/CreateFile/Commit/Abort/Query/ListUploads)", "mime/multipart encoder and decoder", "storage/app handlers (/upload, /search, /uploads)", "storage/db (ID allocation, record insertion, query merging, SQL generation)", "storage/benchfmt legacy Reader/Printer", "storage/query.SplitWords", "analysis/app addToQuery/parseQueryString", "database/sql", "go-sqlite3 / SQLite (shared-cache in-memory database)"}
var vsStub = []string{"HTTP transport (in-process RoundTripper, handler runs as a simulated task)", "file store (SimFS, object-store and local-disk personalities)", "clock (testing/synctest fake clock + db.now skew)", "Auth callback", "SQL driver seam (yield/record/fail-before-execute wrapper around the real driver)"}

var c19Engine = &sim.Engine{
	Prop:  "C19",
	Level: "exploration",
	Rule: "one run = a seeded history of uploads (1-3 files each, label histories, label-removal lines, repeated benchmark lines, coalescing runs, many-label files crossing the insert batch, values with quotes, apostrophes, blanks and URL-special bytes, some parts in quoted-printable transfer encoding, an optional view-URL base, 11-14 uploads on one day in one run out of ten) through the real client/server/database stack in one process, sequentially or with 2-3 concurrent clients under the seeded scheduler, with drawn clock steps; at every quiescent point queries and listings (0-5 equality/range terms, hand-quoted or built by the front end's query builder) are compared with a reference model; " +
		"non-trivial = at least one committed upload and one compared query; distinct = distinct (schedule hash, model summary)",
	Assumptions: []string{
		"sqlite3 dialect only (MySQL FOR UPDATE/HAVING paths cannot run offline)",
		"label values contain no NUL, newline or invalid UTF-8 and do not end in CR",
		"query keys are well formed; malformed queries are not generated",
		"order of query results and which record supplies an extra label are not prescribed",
	},
	Real: vsReal, Stub: vsStub,
	Run: func(t *testing.T, r *sim.Run, tier string) {
		if r.T.Intn(3, "lane") == 0 {
			vsRunLane(t, r, "conc", false, nil, nil)
		} else {
			vsRunLane(t, r, "seq", false, nil, nil)
		}
	},
}

var c20Engine = &sim.Engine{
	Prop:  "C20",
	Level: "fault_enumeration",
	Rule: "one run = a seeded history of upload attempts by 1-3 concurrent clients, at most one injected fault per attempt (file without benchmark lines, a line longer than the line buffer, unexpected form field, client abort between or inside files, request body cut at a byte offset, file-store create/write/short-write/close error (sticky or single-shot; object-store or local-disk personality), auth error), clock jumps/rollover/backward steps, real SQLite lock conflicts; after every phase the all-or-nothing clauses, the file store, the upload-ID history and the C19 query oracle are checked, and a final fault-free upload must succeed; thorough tier additionally enumerates every single-fault position of seeded scenarios; " +
		"non-trivial = at least one committed upload and one compared query; distinct = distinct (schedule hash, model summary)",
	Assumptions: []string{
		"response-path faults (lost acknowledgement after a successful commit) are not injected: C20 says nothing about them",
		"orphan files of earlier, completely written parts of a failed upload are not checked (the property speaks of the file being written)",
		"SQLite shared-cache table locks stand in for a server database's locking; conflicts surface as immediate errors",
	},
	Real: vsReal, Stub: vsStub,
	Run: func(t *testing.T, r *sim.Run, tier string) {
		if r.Param != "" {
			var f vsFault
			if err := json.Unmarshal([]byte(r.Param), &f); err != nil {
				panic(err)
			}
			vsRunLane(t, r, "enum", true, &f, nil)
			return
		}
		if r.T.Intn(4, "extended-lane") == 0 {
			vsRunLane(t, r, "faults+extended", true, nil, nil)
		} else {
			vsRunLane(t, r, "faults", true, nil, nil)
		}
	},
	Extra: c20Enumerate,
}

func TestVerifWorker(t *testing.T) {
	sim.WorkerMain(t, c19Engine, c20Engine)
}

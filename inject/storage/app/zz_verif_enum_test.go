//go:build verif

package app

// C20 single-fault enumeration: for a seeded scenario a fault-free census run
// counts the fault positions of the last upload attempt; then one run per
// (fault kind, position) replays the same scenario tape with that fault forced.

import (
	"encoding/json"
	"testing"

	sim "verif.local/sim"
)

var c20CensusOut *vsCensus

func init() {
	// the census is taken by the same lane code when this variable is set
	c20Engine.Run = func(t *testing.T, r *sim.Run, tier string) {
		if r.Param != "" {
			var f vsFault
			if err := json.Unmarshal([]byte(r.Param), &f); err != nil {
				panic(err)
			}
			vsRunLane(t, r, "enum", true, &f, c20CensusOut)
			return
		}
		if r.T.Intn(4, "extended-lane") == 0 {
			vsRunLane(t, r, "faults+extended", true, nil, nil)
		} else {
			vsRunLane(t, r, "faults", true, nil, nil)
		}
	}
}

func c20Enumerate(t *testing.T, w *sim.Worker) {
	defer func() { w.Param = ""; c20CensusOut = nil }()
	quick := w.Job.Tier != "thorough"
	scenarios, positions := 0, 0
	perKind := map[string]int{}
	complete := true
	for k := 0; ; k++ {
		if w.TimeUp() || (quick && k >= 1) {
			break
		}
		sc := uint64(w.Job.Worker) + uint64(k)*uint64(w.Job.NWorkers)
		seed := sim.Mix(w.Job.Seed, "C20-enum", sc)
		// census: same scenario, no fault
		census := &vsCensus{}
		c20CensusOut = census
		none, _ := json.Marshal(vsFault{})
		w.Param = string(none)
		cr := w.Exec(sim.NewTape(seed), false)
		c20CensusOut = nil
		w.Res.Extra["enumeration-census-runs"]++
		if !w.Handle(cr, 1<<40+sc, seed) {
			return
		}
		if cr.V != nil || census.Files == 0 {
			continue
		}
		tape, stape := cr.T.Values(), cr.T.SchedValues()
		var faults []vsFault
		for j := 0; j < census.Files; j++ {
			faults = append(faults, vsFault{Kind: "nobench", File: j}, vsFault{Kind: "create", File: j}, vsFault{Kind: "close", File: j}, vsFault{Kind: "abort", File: j})
			for m := 0; m < census.WriteCalls[j]; m++ {
				faults = append(faults, vsFault{Kind: "write", File: j, Pos: m}, vsFault{Kind: "write", File: j, Pos: m, Stick: true}, vsFault{Kind: "short-write", File: j, Pos: m})
			}
		}
		for j := 0; j <= census.Files; j++ {
			faults = append(faults, vsFault{Kind: "badfield", File: j})
		}
		faults = append(faults, vsFault{Kind: "auth"})
		stride := 1
		if quick {
			stride = 5
			complete = false
		}
		for off := 0; off < census.BodyBytes; off += stride {
			faults = append(faults, vsFault{Kind: "cut", Pos: off}, vsFault{Kind: "cut-eof", Pos: off})
		}
		scenarios++
		for i, f := range faults {
			if w.TimeUp() {
				complete = false
				break
			}
			b, _ := json.Marshal(f)
			w.Param = string(b)
			r := w.Exec(sim.ReplayTape2(tape, stape), false) // the census run's schedule
			positions++
			perKind[f.Kind]++
			w.Res.Extra["enumerated-fault-positions"]++
			if i%97 == 0 {
				if !w.Recheck(r, 1<<41+sc) {
					return
				}
			}
			if !w.Handle(r, 1<<41+sc*100000+uint64(i), seed) {
				return
			}
			if !quick {
				// the same scenario and fault under a freshly drawn schedule (the workload stream is replayed unchanged)
				r2 := w.Exec(sim.ReplayWithFreshSchedule(tape, sim.Mix(seed, "schedule", uint64(i))), false)
				w.Res.Extra["enumerated-fault-positions-under-drawn-schedule"]++
				if !w.Handle(r2, 1<<42+sc*100000+uint64(i), seed) {
					return
				}
			}
		}
	}
	w.Param = ""
	w.Res.ExtraInfo["cov_enumeration"] = map[string]any{"scenarios": scenarios, "positions": positions, "per_kind": perKind,
		"exhaustive_positions_per_scenario": complete, "note": "positions of the last attempt of each scenario, after its history of earlier uploads; each position under the census run's schedule and (thorough tier) once more under a freshly drawn schedule"}
}

//go:build verif

package app

// Reference model of the storage service (DESIGN.md Appendix A.2): an
// independent reader of the legacy format, the coalescing rule, query
// semantics and listing semantics; plus workload generators.

import (
	"fmt"
	"sort"
	"strconv"
	"strings"
	"unicode/utf8"

	sim "verif.local/sim"
)

func vsIsSpace(r rune) bool {
	switch {
	case r >= 0x09 && r <= 0x0d, r == 0x20, r == 0x85, r == 0xa0, r == 0x1680,
		r >= 0x2000 && r <= 0x200a, r == 0x2028, r == 0x2029, r == 0x202f, r == 0x205f, r == 0x3000:
		return true
	}
	return false
}

func vsLower(r rune) bool {
	return r >= 'a' && r <= 'z' || r == 0xb5 || r >= 0xdf && r <= 0xf6 || r >= 0xf8 && r <= 0xff || r >= 0x430 && r <= 0x45f
}

func vsUpper(r rune) bool {
	return r >= 'A' && r <= 'Z' || r >= 0xc0 && r <= 0xd6 || r >= 0xd8 && r <= 0xde || r >= 0x400 && r <= 0x42f
}

// vsKeyValue: the configuration-line rule.
func vsKeyValue(line string) (key, val string, ok bool) {
	colon := -1
	for i := 0; i < len(line); {
		r, n := utf8.DecodeRuneInString(line[i:])
		invalid := r == utf8.RuneError && n == 1
		if i == 0 && (invalid || !vsLower(r)) {
			return
		}
		if !invalid && (vsIsSpace(r) || vsUpper(r)) {
			return
		}
		if i > 0 && r == ':' {
			colon = i
			break
		}
		i += n
	}
	if colon <= 0 {
		return
	}
	key, rest := line[:colon], line[colon+1:]
	if rest == "" {
		return key, "", true
	}
	if rest[0] != ' ' && rest[0] != '\t' {
		return "", "", false
	}
	return key, strings.TrimLeft(rest, " \t"), true
}

func vsSplitLines(text string) []string {
	var lines []string
	for len(text) > 0 {
		i := strings.IndexByte(text, '\n')
		var l string
		if i < 0 {
			l, text = text, ""
		} else {
			l, text = text[:i], text[i+1:]
		}
		lines = append(lines, strings.TrimSuffix(l, "\r"))
	}
	return lines
}

// vsBenchName: a result line is a line whose first white-space-delimited token
// starts with "Benchmark" and that contains white space.
func vsBenchName(line string) (string, bool) {
	for i := 0; i < len(line); {
		r, n := utf8.DecodeRuneInString(line[i:])
		if !(r == utf8.RuneError && n == 1) && vsIsSpace(r) {
			tok := line[:i]
			if strings.HasPrefix(tok, "Benchmark") {
				return tok[len("Benchmark"):], true
			}
			return "", false
		}
		i += n
	}
	return "", false
}

func vsNameLabels(name string) map[string]string {
	l := map[string]string{}
	if dash := strings.LastIndex(name, "-"); dash >= 0 {
		if _, err := strconv.Atoi(name[dash+1:]); err == nil {
			l["gomaxprocs"] = name[dash+1:]
			name = name[:dash]
		}
	}
	parts := strings.Split(name, "/")
	l["name"] = parts[0]
	for i, sub := range parts[1:] {
		if eq := strings.Index(sub, "="); eq >= 0 {
			l[sub[:eq]] = sub[eq+1:]
		} else {
			l[fmt.Sprintf("sub%d", i+1)] = sub
		}
	}
	return l
}

// vsRecord is one stored record: a maximal run of consecutive results of one
// part with identical labels.
type vsRecord struct {
	upload string
	labels map[string]string // file labels + server labels
	nameL  map[string]string
	all    map[string]string // labels + name labels (what queries see)
	lines  []string
}

func labelsKey(m map[string]string) string {
	ks := make([]string, 0, len(m))
	for k := range m {
		ks = append(ks, k)
	}
	sort.Strings(ks)
	var b strings.Builder
	for _, k := range ks {
		fmt.Fprintf(&b, "%q=%q;", k, m[k])
	}
	return b.String()
}

// vsHasLongLine: a line of 64 KiB or more (bufio.Scanner's documented default limit) need not be accepted.
func vsHasLongLine(text string) bool {
	for _, l := range vsSplitLines(text) {
		if len(l) >= 65000 {
			return true
		}
	}
	return false
}

// vsParseFile returns the records of one uploaded part, or collide=true if a
// file label collides with a name-derived label (such an upload must fail).
func vsParseFile(text string, server map[string]string) (recs []*vsRecord, collide bool) {
	cur := map[string]string{}
	for k, v := range server {
		cur[k] = v
	}
	var last *vsRecord
	for _, line := range vsSplitLines(text) {
		if k, v, ok := vsKeyValue(line); ok {
			if _, isServer := server[k]; isServer {
				continue
			}
			if v == "" {
				delete(cur, k)
			} else {
				cur[k] = v
			}
			continue
		}
		name, ok := vsBenchName(line)
		if !ok {
			continue
		}
		nl := vsNameLabels(name)
		for k := range nl {
			if _, dup := cur[k]; dup {
				collide = true
			}
		}
		if last != nil && labelsKey(last.labels) == labelsKey(cur) && labelsKey(last.nameL) == labelsKey(nl) {
			last.lines = append(last.lines, line)
			continue
		}
		rec := &vsRecord{labels: map[string]string{}, nameL: nl, all: map[string]string{}}
		for k, v := range cur {
			rec.labels[k] = v
			rec.all[k] = v
		}
		for k, v := range nl {
			rec.all[k] = v
		}
		rec.lines = []string{line}
		recs = append(recs, rec)
		last = rec
	}
	return
}

// ---- queries ----

type vsTerm struct {
	key string
	op  byte // ':' '<' '>'
	val string
}

func (t vsTerm) holds(rec *vsRecord) bool {
	var v string
	var ok bool
	if t.key == "upload" {
		v, ok = rec.upload, true
	} else {
		v, ok = rec.all[t.key]
	}
	if !ok {
		return false
	}
	switch t.op {
	case ':':
		return v == t.val
	case '<':
		return v < t.val
	default:
		return v > t.val // k> with empty value = exists
	}
}

func vsMatch(terms []vsTerm, rec *vsRecord) bool {
	for _, t := range terms {
		if !t.holds(rec) {
			return false
		}
	}
	return true
}

// vsQuoteWord renders one word for the query text by hand.
func vsQuoteWord(T *sim.Tape, w string) string {
	needs := strings.ContainsAny(w, " \t\\\"")
	switch {
	case !needs && T.Intn(4, "quote-anyway") != 0:
		return w
	case T.Bool("quote-style"):
		// backslash-escape each special character, no quotes
		var b strings.Builder
		for i := 0; i < len(w); i++ {
			if strings.IndexByte(" \t\\\"", w[i]) >= 0 {
				b.WriteByte('\\')
			}
			b.WriteByte(w[i])
		}
		return b.String()
	default:
		return `"` + strings.NewReplacer(`\`, `\\`, `"`, `\"`).Replace(w) + `"`
	}
}

// ---- model state ----

type vsUpload struct {
	id      string
	day     string
	seq     int
	records []*vsRecord
	files   map[string]string // path -> expected content
}

type vsModel struct {
	uploads []*vsUpload // committed, in commit order
}

func (m *vsModel) allRecords() []*vsRecord {
	var out []*vsRecord
	for _, u := range m.uploads {
		out = append(out, u.records...)
	}
	return out
}

// expectQuery: multiset of "content\x00labels\x00namelabels" strings.
func (m *vsModel) expectQuery(terms []vsTerm) []string {
	var out []string
	for _, rec := range m.allRecords() {
		if vsMatch(terms, rec) {
			for _, l := range rec.lines {
				out = append(out, l+"\x00"+labelsKey(rec.labels)+"\x00"+labelsKey(rec.nameL))
			}
		}
	}
	sort.Strings(out)
	return out
}

type vsListEntry struct {
	id    string
	count int
}

func (m *vsModel) expectList(terms []vsTerm, limit int) []vsListEntry {
	var out []vsListEntry
	ups := append([]*vsUpload(nil), m.uploads...)
	sort.SliceStable(ups, func(i, j int) bool {
		if ups[i].day != ups[j].day {
			return ups[i].day > ups[j].day
		}
		return ups[i].seq > ups[j].seq
	})
	for _, u := range ups {
		n := 0
		for _, rec := range u.records {
			if vsMatch(terms, rec) {
				n++
			}
		}
		if n > 0 {
			out = append(out, vsListEntry{u.id, n})
		}
	}
	if limit > 0 && len(out) > limit {
		out = out[:limit]
	}
	return out
}

// ---- workload generation ----

var vsKeys = []string{"goos", "goarch", "pkg", "commit", "note", "k-1", "é", "a.b", "cpu"}
var vsVals = []string{"linux", "darwin", "amd64", "1", "2", "10", "9", "x y", `q"uote`, `back\slash`, "a<b", "c>d", "k:v", "é世", "Intel(R) Core(TM)", "tab\there", "-", "zz", `"`, `\`, `a\"b c`, "fast\u00a0path", "a\vb", "x\u2003y", "f\ff", "linux goarch:amd64", "\u00a0wide", "\u2003x", "\vlead", "it's", "rock'n'roll", "'", "'q'", "a=b", "100%", "semi;colon", "amp&ersand", "plus+sign", "#hash", "q?mark"}
var vsNameBases = []string{"Encode", "Decode", "Sort", "Fib", "X"}
var vsSubs = []string{"size=1", "size=10", "align=0", "poly=IEEE", "plain", "8", "fmt=json", "expr=a=b", "pad=YWI=", "eq=="}
var vsServerKeys = []string{"upload", "upload-part", "upload-time", "upload-file", "by"}

func vsGenName(T *sim.Tape) string {
	n := sim.Pick(T, vsNameBases, "base")
	used := map[string]bool{}
	ns := T.Intn(3, "nsubs")
	for i := 0; i < ns; i++ {
		s := sim.Pick(T, vsSubs, "sub")
		k := s
		if eq := strings.Index(s, "="); eq >= 0 {
			k = s[:eq]
		}
		if used[k] {
			continue
		}
		used[k] = true
		n += "/" + s
	}
	if T.Intn(3, "procs") == 0 {
		n += "-" + []string{"8", "16", "1", "", "123456789012345678901234567890", "0"}[T.Intn(6, "procsv")]
	}
	return n
}

type vsGenOpts struct {
	wide       bool // one record with more than 250 labels, followed by an equal-label result
	maxLines   int
	manyLabels bool // crosses the insert batch
	collide    bool // allow file labels that collide with name labels (upload must fail)
	noBench    bool // produce a file without benchmark lines
	longLine   bool // one line longer than any line buffer, after the first benchmark line
}

// vsGenFile generates the text of one uploaded file.
func vsGenFile(T *sim.Tape, o vsGenOpts) string {
	max := o.maxLines
	if max == 0 {
		max = 30
	}
	n := 1 + T.Small(0, max, "nlines")
	var b strings.Builder
	name := vsGenName(T)
	nbench := 0
	extra := 0
	var benchLines []string
	longDone := false
	if o.wide {
		nk := 245 + T.Intn(30, "wide-n")
		for i := 0; i < nk; i++ {
			fmt.Fprintf(&b, "w%d: %d\n", i, i%7)
		}
		fmt.Fprintf(&b, "Benchmark%s 1 1 ns/op\nBenchmark%s 2 2 ns/op\n", name, name)
		nbench += 2
	}
	for i := 0; i < n; i++ {
		k := T.Intn(12, "linekind")
		switch {
		case k <= 2:
			key := sim.Pick(T, vsKeys, "key")
			if o.manyLabels && T.Bool("extra-key") {
				extra++
				key = fmt.Sprintf("x%d", extra%40)
			}
			val := sim.Pick(T, vsVals, "val")
			if T.Intn(80, "long-value") == 0 {
				// two label values that agree in their first 8200 bytes
				val = strings.Repeat("v", 8200) + []string{"A", "B"}[T.Intn(2, "long-value-tail")]
			}
			fmt.Fprintf(&b, "%s:%s%s\n", key, []string{" ", "\t", "  "}[T.Intn(3, "sep")], val)
		case k == 3:
			fmt.Fprintf(&b, "%s:%s\n", sim.Pick(T, vsKeys, "key"), []string{"", " ", "\t "}[T.Intn(3, "delsep")])
		case k == 4:
			switch T.Intn(8, "odd") {
			case 0:
				// must be ignored, whether it tries to change or to remove a label the server adds
				fmt.Fprintf(&b, "%s:%s\n", sim.Pick(T, vsServerKeys, "serverkey"), []string{" sneaky", "", " "}[T.Intn(3, "serverkey-how")])
			case 1:
				b.WriteString("\n")
			case 2:
				b.WriteString("PASS\n")
			case 3:
				b.WriteString("ok  \tpkg\t0.1s\n")
			case 4:
				b.WriteString("BenchmarkAlone\n") // no white space: not a result
			case 5:
				if o.collide {
					b.WriteString("name: clash\n")
				}
			case 6:
				b.WriteString("Upper: case\n")
			case 7:
				b.WriteString([]string{"key:value\n", "goos:\u00a0nbsp\n", "note:\vvt\n", "cpu:\u2003em\n"}[T.Intn(4, "no-ascii-blank")]) // no ASCII blank after the colon: not a label line
			}
		default:
			if o.noBench {
				b.WriteString("just text\n")
				continue
			}
			if len(benchLines) > 0 && T.Intn(6, "repeat-line") == 0 {
				// the same benchmark line again: a stored record of its own unless it directly follows its twin under the same labels
				b.WriteString(benchLines[T.Intn(len(benchLines), "which-line")])
				nbench++
				continue
			}
			if T.Intn(3, "newname") == 0 {
				name = vsGenName(T)
			}
			bl := fmt.Sprintf("Benchmark%s%s%d\t%d ns/op%s\n", name, []string{" ", "\t", "  "}[T.Intn(3, "bsep")], 1+T.Intn(1000, "iters"), 1+T.Intn(100000, "ns"),
				[]string{"", "", "", "", "", "", "", " ", "\t", "  \t"}[T.Intn(10, "line-padding")]) // go test pads columns: trailing blanks belong to the line
			b.WriteString(bl)
			benchLines = append(benchLines, bl)
			nbench++
			if o.longLine && !longDone {
				longDone = true
				switch T.Intn(3, "longline-kind") {
				case 0:
					b.WriteString("note: " + strings.Repeat("v", 66000) + "\n")
				case 1:
					b.WriteString(strings.Repeat("x", 66000) + "\n")
				default:
					fmt.Fprintf(&b, "Benchmark%s 1 1 ns/op\n", strings.Repeat("L", 66000))
				}
			}
		}
	}
	if nbench == 0 && !o.noBench {
		fmt.Fprintf(&b, "Benchmark%s 1 1 ns/op\n", name)
	}
	s := b.String()
	if T.Intn(6, "no-final-newline") == 0 {
		s = strings.TrimSuffix(s, "\n")
	}
	return s
}

// vsGenTerms draws a conjunction of 0-5 terms over keys/values that occur in the model (and some that do not).
func vsGenTerms(T *sim.Tape, m *vsModel, allowEmpty bool) []vsTerm {
	type kv struct{ k, v string }
	var pool []kv
	for _, rec := range m.allRecords() {
		for k, v := range rec.all {
			pool = append(pool, kv{k, v})
		}
		pool = append(pool, kv{"upload", rec.upload})
	}
	sort.Slice(pool, func(i, j int) bool {
		if pool[i].k != pool[j].k {
			return pool[i].k < pool[j].k
		}
		return pool[i].v < pool[j].v
	})
	// dedupe
	var uniq []kv
	for i, p := range pool {
		if i == 0 || p != pool[i-1] {
			uniq = append(uniq, p)
		}
	}
	pool = uniq
	n := T.Intn(6, "nterms")
	if n == 0 && !allowEmpty {
		n = 1
	}
	var terms []vsTerm
	if len(pool) > 0 && T.Intn(4, "range-stack") == 0 {
		// three or four range terms on one key, tightening and redundant ones in drawn order
		k := pool[T.Intn(len(pool), "stack-key")].k
		var vs []string
		for _, q := range pool {
			if q.k == k {
				vs = append(vs, q.v)
			}
		}
		vs = append(vs, "", "~", "0", "m")
		m := 3 + T.Intn(2, "stack-n")
		for i := 0; i < m; i++ {
			terms = append(terms, vsTerm{k, []byte{'<', '>'}[T.Intn(2, "stack-op")], vs[T.Intn(len(vs), "stack-val")]})
		}
		if T.Intn(3, "stack-empty-bound") == 0 {
			// an empty bound among them: "k<" can never hold, "k>" holds for every record that has the key
			t := vsTerm{k, []byte{'<', '>'}[T.Intn(2, "empty-bound-op")], ""}
			at := T.Intn(len(terms)+1, "empty-bound-at")
			terms = append(terms[:at], append([]vsTerm{t}, terms[at:]...)...)
		}
		if T.Bool("stack-plus-eq") {
			terms = append(terms, vsTerm{k, ':', vs[T.Intn(len(vs)-4, "stack-eq")]})
		}
		return terms
	}
	for i := 0; i < n; i++ {
		var t vsTerm
		switch {
		case len(pool) > 0 && T.Intn(8, "term-src") < 6:
			p := pool[T.Intn(len(pool), "pool")]
			t.key, t.val = p.k, p.v
			if i > 0 && T.Intn(3, "same-key") == 0 {
				t.key = terms[T.Intn(len(terms), "which-key")].key // several terms on one key
				if T.Bool("same-key-poolval") {
					// another value of the same key, if any
					var vs []string
					for _, q := range pool {
						if q.k == t.key {
							vs = append(vs, q.v)
						}
					}
					if len(vs) > 0 {
						t.val = vs[T.Intn(len(vs), "same-key-val")]
					}
				}
			}
		case T.Bool("absent-key"):
			t.key, t.val = "nosuchkey", sim.Pick(T, vsVals, "val")
		default:
			t.key, t.val = sim.Pick(T, vsKeys, "key"), sim.Pick(T, vsVals, "val")
		}
		switch T.Intn(8, "op") {
		case 0, 1, 2, 3:
			t.op = ':'
		case 4:
			t.op = '<'
		case 5:
			t.op = '>'
		case 6:
			t.op, t.val = '>', "" // exists
		case 7:
			// perturb the value so range terms cut between stored values
			t.op = []byte{'<', '>'}[T.Intn(2, "ltgt")]
			t.val += []string{"", "0", "~", " "}[T.Intn(4, "perturb")]
		}
		if t.op == ':' && t.val == "" {
			t.val = "x"
		}
		terms = append(terms, t)
	}
	return terms
}

// vsRenderQuery renders the terms as query text, either by hand quoting or the
// way the analysis front end does it: the last word is the user's query, every
// other word is added with addToQuery ("word | query"), the result is split by
// parseQueryString into prefix and query and sent as "prefix query".
func vsRenderQuery(T *sim.Tape, terms []vsTerm, useBuilder bool, addToQuery func(q, add string) string, parseQS func(string) (string, []string)) (string, []string) {
	var words []string
	for _, t := range terms {
		words = append(words, t.key+string(t.op)+t.val)
	}
	if useBuilder && len(words) > 0 {
		q := vsQuoteWord(T, words[len(words)-1])
		for i := len(words) - 2; i >= 0; i-- {
			q = addToQuery(q, words[i])
		}
		prefix, queries := parseQS(q)
		out := ""
		if len(queries) > 0 {
			out = queries[0]
		}
		if prefix != "" {
			out = prefix + " " + out
		}
		return out, words
	}
	var parts []string
	for _, w := range words {
		parts = append(parts, vsQuoteWord(T, w))
	}
	return strings.Join(parts, []string{" ", "  ", "\t", " \t "}[T.Intn(4, "wordsep")]), words
}

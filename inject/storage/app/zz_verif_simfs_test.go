//go:build verif

package app

// SimFS (fs.FS with fault injection, two personalities) and the in-process
// HTTP transport of the storage simulation.

import (
	"bytes"
	"context"
	"fmt"
	"io"
	"mime"
	"net/http"
	"net/http/httptest"
	"sort"
	"sync"
	"sync/atomic"

	"os"
	"path/filepath"

	"golang.org/x/perf/storage/fs"
	"golang.org/x/perf/storage/fs/local"
	sim "verif.local/sim"
)

type simFile struct {
	name    string
	buf     []byte
	visible bool // counts as stored
	open    bool
	writes  int
	closedOK bool
}

// SimFS personalities.
const (
	fsObjectStore = iota // content becomes visible at successful Close; failed Close stores nothing (GCS, MemFS)
	fsLocalDisk          // file exists from create, holds what was written, survives a failed Close until CloseWithError removes it
	fsRealLocal          // the REAL storage/fs/local implementation over a scratch directory, under a fault-injecting wrapper
)

type fsFault struct {
	kind     string // "", "create", "write", "short-write", "close"
	file     int    // index of the NewWriter call (0-based) within the armed request
	write    int    // index of the Write call on that file
	sticky   bool
}

type fsClient struct {
	creates    int // NewWriter calls since arm
	fault      fsFault
	fired      bool
	writeCalls map[int]int
	created    []*simFile
}

type simFS struct {
	r           *sim.Run
	personality int
	mu          sync.Mutex
	files       map[string]*simFile
	clients     map[string]*fsClient // keyed by the "by" label ("anon" when absent)
	dead        bool
	inner       fs.FS  // fsRealLocal: storage/fs/local
	root        string // fsRealLocal: its root directory
}

func newSimFS(r *sim.Run, personality int) *simFS {
	return &simFS{r: r, personality: personality, files: map[string]*simFile{}, clients: map[string]*fsClient{}}
}

// useRealLocal switches the store to the real local file system implementation rooted at dir.
func (f *simFS) useRealLocal(dir string) {
	f.personality, f.root, f.inner = fsRealLocal, dir, local.NewFS(dir)
}

func (f *simFS) client(name string) *fsClient {
	c := f.clients[name]
	if c == nil {
		c = &fsClient{writeCalls: map[int]int{}}
		f.clients[name] = c
	}
	return c
}

// armClient resets the client's per-request counters and installs a fault (zero value = none).
func (f *simFS) armClient(name string, ft fsFault) {
	f.mu.Lock()
	c := f.client(name)
	c.creates, c.fault, c.fired = 0, ft, false
	if ft.kind != "" || len(c.writeCalls) == 0 {
		c.writeCalls = map[int]int{}
	}
	f.mu.Unlock()
}

func (f *simFS) createdBy(name string) []*simFile {
	f.mu.Lock()
	defer f.mu.Unlock()
	return append([]*simFile(nil), f.client(name).created...)
}

func (f *simFS) forgetCreated() {
	f.mu.Lock()
	for _, c := range f.clients {
		c.created = nil
	}
	f.mu.Unlock()
}

func (f *simFS) writeCallsOf(name string) map[int]int {
	f.mu.Lock()
	defer f.mu.Unlock()
	out := map[int]int{}
	for k, v := range f.client(name).writeCalls {
		out[k] = v
	}
	return out
}

func (f *simFS) NewWriter(_ context.Context, name string, metadata map[string]string) (fs.Writer, error) {
	sim.Yield("fs:create")
	f.mu.Lock()
	defer f.mu.Unlock()
	who := metadata["by"]
	if who == "" {
		who = "anon"
	}
	c := f.client(who)
	idx := c.creates
	c.creates++
	if f.dead {
		return nil, sim.ErrInjected
	}
	if c.fault.kind == "create" && c.fault.file == idx && !c.fired {
		c.fired = true
		f.r.Fault("fs-create-error")
		return nil, sim.ErrInjected
	}
	if c.fault.kind == "disk-full" && c.fault.file == idx && !c.fired && f.inner != nil {
		// the real local file store on a full disk: the file can be created (here: a link to /dev/full), every
		// write that reaches the operating system fails with ENOSPC
		c.fired = true
		f.r.Fault("fs-disk-full")
		full := filepath.Join(f.root, filepath.FromSlash(name))
		os.MkdirAll(filepath.Dir(full), 0o777)
		os.Symlink("/dev/full", full)
	}
	sf := &simFile{name: name, open: true}
	if f.personality == fsLocalDisk {
		sf.visible = true
	}
	var iw fs.Writer
	if f.inner != nil {
		var err error
		if iw, err = f.inner.NewWriter(context.Background(), name, metadata); err != nil {
			return nil, err
		}
	}
	f.files[name] = sf
	c.created = append(c.created, sf)
	return &simFSWriter{fs: f, c: c, f: sf, idx: idx, iw: iw}, nil
}

type simFSWriter struct {
	fs     *simFS
	c      *fsClient
	f      *simFile
	idx    int
	failed bool
	iw     fs.Writer // real writer underneath (fsRealLocal)
}

func (w *simFSWriter) Write(p []byte) (int, error) {
	sim.Yield("fs:write")
	fs := w.fs
	fs.mu.Lock()
	defer fs.mu.Unlock()
	n := w.f.writes
	w.f.writes++
	w.c.writeCalls[w.idx]++
	if fs.dead || !w.f.open {
		return 0, sim.ErrInjected
	}
	ft := w.c.fault
	if (ft.kind == "write" || ft.kind == "short-write") && ft.file == w.idx {
		if (n == ft.write && !w.c.fired) || (ft.sticky && w.failed) {
			w.c.fired, w.failed = true, true
			if ft.kind == "short-write" && len(p) > 1 {
				fs.r.Fault("fs-short-write")
				w.f.buf = append(w.f.buf, p[:len(p)/2]...)
				if w.iw != nil {
					w.iw.Write(p[:len(p)/2])
				}
				return len(p) / 2, sim.ErrInjected
			}
			fs.r.Fault("fs-write-error")
			return 0, sim.ErrInjected
		}
	}
	w.f.buf = append(w.f.buf, p...)
	if w.iw != nil {
		return w.iw.Write(p)
	}
	return len(p), nil
}

func (w *simFSWriter) Close() error {
	sim.Yield("fs:close")
	fs := w.fs
	fs.mu.Lock()
	defer fs.mu.Unlock()
	if !w.f.open {
		return fmt.Errorf("simfs: %s already closed", w.f.name)
	}
	if fs.dead {
		w.f.open = false
		return sim.ErrInjected
	}
	if w.c.fault.kind == "close" && w.c.fault.file == w.idx && !w.c.fired {
		w.c.fired = true
		fs.r.Fault("fs-close-error")
		w.f.open = false
		// object store: nothing stored; local disk: the file stays on disk
		if w.iw != nil {
			w.iw.Close() // the descriptor is really closed; the error is what a deferred write error at close looks like
		}
		return sim.ErrInjected
	}
	w.f.open = false
	if w.iw != nil {
		if err := w.iw.Close(); err != nil {
			return err
		}
	}
	w.f.visible = true
	w.f.closedOK = true
	return nil
}

func (w *simFSWriter) CloseWithError(error) error {
	sim.Yield("fs:close-with-error")
	fs := w.fs
	fs.mu.Lock()
	defer fs.mu.Unlock()
	w.f.open = false
	w.f.visible = false
	delete(fs.files, w.f.name)
	if w.iw != nil {
		w.iw.CloseWithError(sim.ErrInjected)
	}
	return nil
}

// stored returns the visible files.
func (f *simFS) stored() map[string][]byte {
	f.mu.Lock()
	defer f.mu.Unlock()
	out := map[string][]byte{}
	if f.inner != nil {
		filepath.Walk(f.root, func(p string, info os.FileInfo, err error) error {
			if err == nil && !info.IsDir() {
				rel, _ := filepath.Rel(f.root, p)
				if !info.Mode().IsRegular() {
					if t, err := os.Readlink(p); err == nil && t == "/dev/full" {
						return nil // the link the disk-full fault planted is not a stored file (a writer that never opened this path has no reason to remove it)
					}
					out[filepath.ToSlash(rel)] = []byte("<not a regular file: " + info.Mode().String() + ">")
					return nil
				}
				b, _ := os.ReadFile(p)
				out[filepath.ToSlash(rel)] = b
			}
			return nil
		})
		return out
	}
	for n, sf := range f.files {
		if sf.visible {
			out[n] = append([]byte(nil), sf.buf...)
		}
	}
	return out
}

func (f *simFS) names() []string {
	var ns []string
	for n := range f.stored() {
		ns = append(ns, n)
	}
	sort.Strings(ns)
	return ns
}

// ---------------- transport ----------------

type bodyFault struct {
	cutAt int // >= 0: the request body ends with io.ErrUnexpectedEOF at this byte offset
}

type armedCut struct {
	at    int
	clean bool
}

type simTransport struct {
	r       *sim.Run
	s       *sim.Sched
	handler http.Handler
	mu      sync.Mutex
	// next upload request's body fault (consumed by the next POST)
	cuts         map[string]armedCut // per client: body fault of its next POST
	lastCutClass map[string]string   // per client
	lastCutInFile map[string]bool    // per client: the body ended inside the content of a part that is a file
	lastCutPart   map[string]int     // per client: index of that part in the form (the server numbers stored files by it)
	reqN    int
	dead    bool
	// census of the last POST body
	lastBodyBytes int
	chunkMax      int
	inflight      atomic.Int32 // handlers running
}

type simBody struct {
	tr    *simTransport
	rc    io.ReadCloser
	off   int
	cut   int
	post  bool
	clean bool   // the cut looks like a clean end of the body (io.EOF) instead of io.ErrUnexpectedEOF
	seen  []byte // bytes delivered so far (to classify where a cut fell)
	bound string
	who   string
}

// cutPart: index of the part in which the body ended (parts are counted from 0 in the order they were sent).
func (b *simBody) cutPart() int {
	return bytes.Count(b.seen, []byte("--"+b.bound)) - 1
}

// cutInFile: the part in which the body ended is a file part (its headers name the form field "file").
func (b *simBody) cutInFile() bool {
	d := []byte("--" + b.bound)
	i := bytes.LastIndex(b.seen, d)
	if i < 0 {
		return false
	}
	after := b.seen[i+len(d):]
	j := bytes.Index(after, []byte("\r\n\r\n"))
	return j >= 0 && bytes.Contains(after[:j], []byte(`name="file"`))
}

// cutClass says where in the multipart stream the body ended.
func (b *simBody) cutClass() string {
	d := []byte("--" + b.bound)
	i := bytes.LastIndex(b.seen, d)
	if i < 0 {
		return "before-first-delimiter"
	}
	after := b.seen[i+len(d):]
	switch {
	case len(after) < 2:
		return "at-delimiter"
	case bytes.HasPrefix(after, []byte("--")):
		return "after-final-delimiter"
	case !bytes.Contains(after, []byte("\r\n\r\n")):
		return "in-part-headers"
	}
	// a delimiter may be partially delivered at the very end
	for k := len(d) + 1; k > 0; k-- {
		if k <= len(b.seen) && bytes.HasSuffix(b.seen, append([]byte("\r\n"), d...)[:k]) && k > 2 {
			return "in-delimiter"
		}
	}
	return "in-part-body"
}

func (b *simBody) Read(p []byte) (int, error) {
	sim.Yield("http:body-read")
	if b.cut >= 0 && b.off >= b.cut {
		if b.clean {
			b.tr.r.Fault("request-body-ends-early-cleanly")
			b.tr.mu.Lock()
			b.tr.lastCutClass[b.who] = b.cutClass()
			b.tr.lastCutInFile[b.who] = b.cutInFile()
			b.tr.lastCutPart[b.who] = b.cutPart()
			b.tr.mu.Unlock()
			return 0, io.EOF
		}
		b.tr.r.Fault("request-body-cut")
		b.tr.mu.Lock()
		b.tr.lastCutClass[b.who] = "broken:" + b.cutClass()
		b.tr.lastCutInFile[b.who] = b.cutInFile()
		b.tr.lastCutPart[b.who] = b.cutPart()
		b.tr.mu.Unlock()
		return 0, io.ErrUnexpectedEOF
	}
	if len(p) == 0 {
		return 0, nil
	}
	max := len(p)
	if b.tr.chunkMax > 0 {
		if c := 1 + b.tr.r.T.Intn(b.tr.chunkMax, "body-chunk"); c < max {
			max = c
		}
	}
	if b.cut >= 0 && b.off+max > b.cut {
		max = b.cut - b.off
	}
	n, err := b.rc.Read(p[:max])
	b.off += n
	if b.cut >= 0 {
		b.seen = append(b.seen, p[:n]...)
	}
	if b.post {
		b.tr.mu.Lock()
		b.tr.lastBodyBytes = b.off
		b.tr.mu.Unlock()
	}
	return n, err
}

func (b *simBody) Close() error { return b.rc.Close() }

func (tr *simTransport) RoundTrip(req *http.Request) (*http.Response, error) {
	sim.Yield("http:roundtrip")
	tr.mu.Lock()
	tr.reqN++
	cut, clean := -1, false
	who := req.Header.Get("X-Verif-Client")
	if req.Method == "POST" {
		if ac, ok := tr.cuts[who]; ok {
			cut, clean = ac.at, ac.clean
			delete(tr.cuts, who)
		}
		tr.lastBodyBytes = 0
		delete(tr.lastCutClass, who)
		delete(tr.lastCutInFile, who)
	}
	dead := tr.dead
	tr.mu.Unlock()
	if dead {
		if req.Body != nil {
			req.Body.Close()
		}
		return nil, fmt.Errorf("verifsim: connection refused")
	}
	sreq := &http.Request{Method: req.Method, URL: req.URL, Proto: "HTTP/1.1", ProtoMajor: 1, ProtoMinor: 1,
		Header: req.Header.Clone(), Host: req.URL.Host, RequestURI: req.URL.RequestURI(), ContentLength: -1, RemoteAddr: "sim"}
	if req.Body != nil {
		bound := ""
		if _, params, err := mime.ParseMediaType(req.Header.Get("Content-Type")); err == nil {
			bound = params["boundary"]
		}
		sreq.Body = &simBody{tr: tr, rc: req.Body, cut: cut, post: req.Method == "POST", clean: clean, bound: bound, who: who}
	} else {
		sreq.Body = http.NoBody
	}
	sreq = sreq.WithContext(context.Background())
	rec := httptest.NewRecorder()
	done := make(chan struct{})
	tr.inflight.Add(1)
	tr.s.Go(fmt.Sprintf("handler %s %s", req.Method, req.URL.Path), 1, func() {
		defer close(done)
		defer tr.inflight.Add(-1)
		tr.handler.ServeHTTP(rec, sreq)
	})
	<-done
	if req.Body != nil {
		// as net/http does once the handler has returned: discard what is left of the request body, then close it
		// (a client still writing its closing delimiter must not see a broken pipe after the server has answered)
		if rec.Code == 200 {
			rest, _ := io.ReadAll(req.Body)
			// a cut that the server never read up to still happened: if the form's closing delimiter lies
			// beyond the cut, the upload was truncated and must not have been committed
			if sb, ok := sreq.Body.(*simBody); ok && sb.cut >= 0 {
				full := append(append([]byte(nil), sb.seen...), rest...)
				end := bytes.Index(full, []byte("--"+sb.bound+"--"))
				tr.mu.Lock()
				if _, fired := tr.lastCutClass[who]; !fired && (end < 0 || sb.cut < end+len(sb.bound)+4) {
					pre := "broken:"
					if sb.clean {
						pre = ""
					}
					tr.lastCutClass[who] = pre + "unread-tail"
				}
				tr.mu.Unlock()
			}
		}
		req.Body.Close()
	}
	res := rec.Result()
	res.Request = req
	// hand the client a plain buffered body
	b, _ := io.ReadAll(res.Body)
	res.Body = io.NopCloser(bytes.NewReader(b))
	return res, nil
}

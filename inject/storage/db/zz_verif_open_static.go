//go:build verif

package db

import "database/sql"

// VerifOpen builds a DB over an already opened *sql.DB using the sqlite3
// dialect (mirrors OpenSQL; lets the harness put a seam driver underneath).
func VerifOpen(sdb *sql.DB) (*DB, error) {
	d := &DB{sql: sdb, driverName: "sqlite3"}
	if err := d.createTables("sqlite3"); err != nil {
		return nil, err
	}
	if err := d.prepareStatements("sqlite3"); err != nil {
		return nil, err
	}
	return d, nil
}


//go:build verif

package db

import "time"

// VerifSetNow replaces the package clock (nil restores time.Now).
func VerifSetNow(f func() time.Time) {
	if f == nil {
		now = time.Now
		return
	}
	now = f
}

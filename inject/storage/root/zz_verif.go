//go:build verif

package storage

import (
	"fmt"
	"io"
	"net/textproto"
)

// VerifWriteField sends an arbitrary form field through the upload's
// multipart stream (used by the C20 harness to commit a protocol violation).
func (u *Upload) VerifWriteField(name, val string) error {
	if u.mpw == nil {
		return nil
	}
	return u.mpw.WriteField(name, val)
}

// VerifCreateQPFile starts a "file" part whose body the caller sends in
// quoted-printable transfer encoding (a legal multipart/form-data part that
// the server's multipart reader decodes transparently).
func (u *Upload) VerifCreateQPFile(name string) (io.Writer, error) {
	if u.err != nil {
		return nil, u.err
	}
	h := make(textproto.MIMEHeader)
	h.Set("Content-Disposition", fmt.Sprintf(`form-data; name="file"; filename=%q`, name))
	h.Set("Content-Type", "application/octet-stream")
	h.Set("Content-Transfer-Encoding", "quoted-printable")
	return u.mpw.CreatePart(h)
}

// VerifWriteFileField sends a part with the given field name that carries a file name and content (used by the
// C20 harness: a field other than "file" is a protocol violation whether or not it looks like a file).
func (u *Upload) VerifWriteFileField(field, filename, content string) error {
	if u.mpw == nil {
		return nil
	}
	w, err := u.mpw.CreateFormFile(field, filename)
	if err != nil {
		return err
	}
	_, err = io.WriteString(w, content)
	return err
}

//go:build verif

package storage

// VerifWriteField sends an arbitrary form field through the upload's
// multipart stream (used by the C20 harness to commit a protocol violation).
func (u *Upload) VerifWriteField(name, val string) error {
	if u.mpw == nil {
		return nil
	}
	return u.mpw.WriteField(name, val)
}

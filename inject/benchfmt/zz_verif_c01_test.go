//go:build verif

package benchfmt

// C01 — write/read round trip (streamsim). Injected by /verif/check; never
// committed to /repo.

import (
	"bytes"
	"fmt"
	"math"
	"sort"
	"strings"
	"testing"

	sim "verif.local/sim"
)

// ---- reference model of a record stream ----

type mVal struct {
	v    float64
	unit string
}

type mRec struct {
	meta             bool
	name             string
	iters            int
	vals             []mVal
	cfg              map[string]string // file configuration only
	mUnit, mKey, mVl string            // metadata: unit as written, key, value
}

func (m *mRec) String() string {
	if m.meta {
		return fmt.Sprintf("Unit %q %q=%q", m.mUnit, m.mKey, m.mVl)
	}
	var ks []string
	for k := range m.cfg {
		ks = append(ks, k)
	}
	sort.Strings(ks)
	var b strings.Builder
	fmt.Fprintf(&b, "Result %q iters=%d cfg={", m.name, m.iters)
	for _, k := range ks {
		fmt.Fprintf(&b, "%q:%q ", k, m.cfg[k])
	}
	b.WriteString("} vals=[")
	for i, v := range m.vals {
		if i >= 6 {
			fmt.Fprintf(&b, "…(%d)", len(m.vals))
			break
		}
		fmt.Fprintf(&b, "%v(%x) %q; ", v.v, math.Float64bits(v.v), v.unit)
	}
	b.WriteString("]")
	return b.String()
}

func sameFloat(a, b float64) bool {
	if math.IsNaN(a) || math.IsNaN(b) {
		return math.IsNaN(a) && math.IsNaN(b)
	}
	return math.Float64bits(a) == math.Float64bits(b)
}

func (m *mRec) equal(o *mRec) bool {
	if m.meta != o.meta {
		return false
	}
	if m.meta {
		return m.mUnit == o.mUnit && m.mKey == o.mKey && m.mVl == o.mVl
	}
	if m.name != o.name || m.iters != o.iters || len(m.vals) != len(o.vals) || len(m.cfg) != len(o.cfg) {
		return false
	}
	for i := range m.vals {
		if m.vals[i].unit != o.vals[i].unit || !sameFloat(m.vals[i].v, o.vals[i].v) {
			return false
		}
	}
	for k, v := range m.cfg {
		if ov, ok := o.cfg[k]; !ok || ov != v {
			return false
		}
	}
	return true
}

// modelOf snapshots a record in the terms C01 speaks about: values and units
// as written, file configuration only.
func modelOf(rec Record) *mRec {
	switch rec := rec.(type) {
	case *Result:
		m := &mRec{name: string(rec.Name), iters: rec.Iters, cfg: map[string]string{}}
		for _, c := range rec.Config {
			if c.File {
				m.cfg[c.Key] = string(c.Value)
			}
		}
		for _, v := range rec.Values {
			if v.OrigUnit != "" {
				m.vals = append(m.vals, mVal{v.OrigValue, v.OrigUnit})
			} else {
				m.vals = append(m.vals, mVal{v.Value, v.Unit})
			}
		}
		return m
	case *UnitMetadata:
		return &mRec{meta: true, mUnit: rec.OrigUnit, mKey: rec.Key, mVl: rec.Value}
	}
	return nil
}

// ---- generators ----

// long values: lines of several kilobytes are ordinary (GOFLAGS, long paths, cpu feature lists); they stay below the 64 KiB a line may have
var c01Long4k = "flags=" + strings.Repeat("-tags=x,", 600)
var c01Long20k = strings.Repeat("0123456789abcdef", 1250)

// c01ShortOnly: lanes that move every byte through one-byte pipes leave the long values out
var c01ShortOnly bool

func c01PickVal(T *sim.Tape, label string) string {
	v := sim.Pick(T, c01Vals, label)
	if c01ShortOnly && len(v) > 100 {
		return "long"
	}
	return v
}

var c01Keys = []string{"a", "goos", "pkg", "k-1", "é", "ключ", "x/y", "a.b", "cpu", "b"}
var c01Vals = []string{"1", "2", "linux", "darwin", "Intel(R) Core(TM) i7", "x  y", "v:1", "é世", "a\tb", "key: value", "Benchmark", "-", "0",
	// trailing blanks and Unicode white space at either end belong to the value (only leading ASCII blanks/tabs separate it from the key)
	"padded   ", "tab\t", "2.20GHz ", "\u00a0x", "x\u00a0", "x\u3000", "v\v", "\u2003both\u2003", "ctl\x1b[0m", "\x00", c01Long4k, c01Long20k}
var c01Units = []string{"ns/op", "MB/s", "B/op", "allocs/op", "ns/ns", "MB*ns/op", "foo-ns", "xns", "custom", "ns", "sec/op", "B/s", "ns/MB", "é/op", "u\x1f/op", "\x01ns"}
var c01NamePieces = []string{"Benchmark", "\x1b", "\x00", "X", "Y", "Foo", "/", "=", "-", "8", "16", "k", "v", "é", "世", "\xff", "sub", "_", ":", "*"}
var c01MetaUnits = []string{"ns/op", "B/op", "allocs/op", "MB/s", "foo-ns", "custom"}
var c01MetaKeys = []string{"better", "assume", "k", "é", "a:b"}
var c01MetaVals = []string{"higher", "lower", "exact", "nothing", "", "x=y", "é"}

func genFloat(T *sim.Tape) float64 {
	switch T.Intn(16, "fkind") {
	case 0:
		return float64(1 + T.Intn(1000, "fsmall"))
	case 1:
		return 0
	case 2:
		return math.Copysign(0, -1)
	case 3:
		return math.Inf(1)
	case 4:
		return math.Inf(-1)
	case 5:
		return math.NaN()
	case 6:
		return 5e-324 * float64(1+T.Intn(100, "fsub"))
	case 7:
		return 1e300 * float64(1+T.Intn(9, "fbig"))
	case 8:
		return 1e-300 / float64(1+T.Intn(9, "ftiny"))
	case 9:
		return float64(uint64(1) << 63)
	case 10:
		return 9223372036854775807
	case 11:
		return float64(T.Intn(1<<30, "fint")) * float64(T.Intn(1<<30, "fint"))
	case 12:
		return math.Float64frombits(uint64(T.Intn(1<<31, "fbits"))<<33 | uint64(T.Intn(1<<31, "fbits"))<<2 | uint64(T.Intn(4, "fbits")))
	case 13:
		return float64(T.Intn(100000, "fdec")) / 1000
	case 14:
		return -float64(T.Intn(100000, "fdec")) / 7
	default:
		if T.Bool("fpow10") {
			// a short mantissa times a large or small power of ten (printed in exponent form)
			return float64(1+T.Intn(99, "fmant")) * math.Pow(10, float64(T.Intn(90, "fexp")-45))
		}
		return 0.1 * float64(T.Intn(100, "ftenth"))
	}
}

func genIters(T *sim.Tape) int {
	switch T.Intn(12, "iters-kind") {
	case 0:
		return 0
	case 1:
		if T.Bool("iters-min") {
			return math.MinInt64
		}
		return math.MaxInt64
	case 2:
		return -1 - T.Intn(1000, "iters-neg") // not produced by the testing package, but an int the API accepts and the format can carry
	case 3:
		return 1 << (31 + T.Intn(32, "iters-shift"))
	}
	return T.Intn(5, "iters") * (1 + T.Intn(1000, "iters2"))
}

func genName(T *sim.Tape) string {
	n := T.Small(0, 6, "namelen")
	var b strings.Builder
	for i := 0; i < n; i++ {
		b.WriteString(sim.Pick(T, c01NamePieces, "namepiece"))
	}
	return b.String()
}

func genValues(T *sim.Tape, api bool) []Value {
	n := 1
	switch T.Intn(8, "nvals-kind") {
	case 0, 1, 2, 3:
		n = 1 + T.Intn(3, "nvals")
	case 4, 5:
		n = 1 + T.Intn(8, "nvals")
	case 6:
		n = 30 + T.Intn(6, "nvals") // around the 32 boundary
	case 7:
		n = 62 + T.Intn(9, "nvals") // around the 64 boundary
	}
	vals := make([]Value, n)
	for i := range vals {
		v := Value{Value: genFloat(T), Unit: sim.Pick(T, c01Units, "unit")}
		if api && T.Intn(4, "orig") == 3 {
			v.OrigValue = genFloat(T)
			v.OrigUnit = sim.Pick(T, c01Units, "origunit")
		}
		vals[i] = v
	}
	return vals
}

// c01History drives one Writer through a drawn history of API-built results
// and returns the acknowledged model stream.
type cfgEnt struct {
	val  string
	file bool
}

func cloneShadow(m map[string]cfgEnt) map[string]cfgEnt {
	c := make(map[string]cfgEnt, len(m))
	for k, v := range m {
		c[k] = v
	}
	return c
}

type c01Hist struct {
	sw         *sim.SimWriter // the sink, when the lane injects transient failures
	transient  bool           // inject single-shot write failures (nothing accepted) on records that change no configuration
	lastCfgKey string         // canonical file configuration of the last acknowledged result
	dropped    int
	shadow     map[string]cfgEnt   // what the API calls so far mean for prev (independent of the Result's own bookkeeping)
	oldShadows []map[string]cfgEnt // same for olds
	r     *sim.Run
	T     *sim.Tape
	w     *Writer
	model []*mRec
	prev  *Result
	olds  []*Result
	metas map[string]bool
	flips int
	edits int
}

func (h *c01Hist) write(rec Record, what string) bool {
	m := modelOf(rec)
	if !m.meta {
		m.cfg = map[string]string{}
		for k, e := range h.shadow {
			if e.file {
				m.cfg[k] = e.val
			}
		}
	}
	h.r.Logf("%s -> %s", what, m)
	cfgKey := ""
	if !m.meta {
		cfgKey = fmt.Sprint(len(h.shadow), m.String()[strings.Index(m.String(), "cfg="):strings.Index(m.String(), "vals=")])
		var ik []string
		for k, e := range h.shadow { // internal entries count too: the writer tracks them
			if !e.file {
				ik = append(ik, fmt.Sprintf("|%s=%s", k, e.val))
			}
		}
		sort.Strings(ik)
		cfgKey += strings.Join(ik, "")
	}
	if h.transient && !m.meta && len(h.model) > 0 && cfgKey == h.lastCfgKey && h.T.Intn(4, "transient-failure") == 0 {
		// a transient failure of the sink on a record that needs no configuration lines: nothing is accepted,
		// the error is reported, the caller carries on with the next record
		h.sw.ErrAtCall = h.sw.Calls
		err := h.w.Write(rec)
		h.sw.ErrAtCall = -1
		if err == nil {
			h.r.Fail("roundtrip", "api/write-error-swallowed", "the sink rejected a record but Writer.Write returned nil")
		}
		h.r.Logf("transient write error, record dropped")
		h.dropped++
		return true
	}
	if err := h.w.Write(rec); err != nil {
		h.r.Logf("write error: %v", err)
		return false
	}
	h.model = append(h.model, m)
	if !m.meta {
		h.lastCfgKey = cfgKey
	}
	return true
}

func (h *c01Hist) step() bool {
	T := h.T
	if T.Intn(30, "syntax-error-record") == 0 {
		// a reader's positioned error passed along by a filter: not part of the stream, writes nothing
		if err := h.w.Write(&SyntaxError{FileName: "f", Line: 1 + T.Intn(9, "errline"), Msg: "missing iteration count"}); err != nil {
			// whether the writer skips it or notes it down in a way readers ignore is its business; if it wrote and
			// the sink failed, that is a write error like any other
			h.r.Logf("write error on a syntax error record: %v", err)
			return false
		}
		h.r.Hit("syntax error record handed to the writer")
	}
	kind := T.Intn(10, "op")
	if h.prev == nil && kind != 9 {
		kind = 0
	}
	switch {
	case kind == 9: // unit metadata
		u, k := sim.Pick(T, c01MetaUnits, "munit"), sim.Pick(T, c01MetaKeys, "mkey")
		if h.metas[u+"\x00"+k] {
			return true
		}
		h.metas[u+"\x00"+k] = true
		md := &UnitMetadata{UnitMetadataKey: UnitMetadataKey{Unit: u, Key: k}, OrigUnit: u, Value: sim.Pick(T, c01MetaVals, "mval")}
		return h.write(md, "meta")
	case kind <= 2: // fresh literal
		res := &Result{Name: Name(genName(T)), Iters: genIters(T), Values: genValues(T, true)}
		nk := T.Small(0, 6, "nkeys")
		used := map[string]bool{}
		for i := 0; i < nk; i++ {
			k := sim.Pick(T, c01Keys, "key")
			if used[k] {
				continue
			}
			used[k] = true
			res.Config = append(res.Config, Config{Key: k, Value: []byte(c01PickVal(T, "val")), File: T.Intn(4, "file") != 3})
		}
		h.prev = res
		h.shadow = map[string]cfgEnt{}
		for _, c := range res.Config {
			h.shadow[c.Key] = cfgEnt{string(c.Value), c.File}
		}
		h.olds = append(h.olds, res)
		h.oldShadows = append(h.oldShadows, h.shadow)
		return h.write(res, "fresh")
	case kind == 3: // clone of an earlier result
		oi := T.Intn(len(h.olds), "old")
		h.prev = h.olds[oi].Clone()
		h.shadow = cloneShadow(h.oldShadows[oi])
		h.olds = append(h.olds, h.prev)
		h.oldShadows = append(h.oldShadows, h.shadow)
		return h.write(h.prev, "clone")
	default: // edit the previous result in place, 1-3 edits
		res := h.prev
		ne := 1 + T.Intn(3, "nedits")
		var desc []string
		for i := 0; i < ne; i++ {
			k := sim.Pick(T, c01Keys, "ekey")
			switch T.Intn(6, "edit") {
			case 0:
				v := c01PickVal(T, "eval")
				res.SetConfig(k, v) // becomes/stays internal
				h.shadow[k] = cfgEnt{v, false}
				desc = append(desc, fmt.Sprintf("SetConfig(%q,%q)", k, v))
				h.flips++
			case 1:
				res.SetConfig(k, "")
				delete(h.shadow, k)
				desc = append(desc, fmt.Sprintf("SetConfig(%q,\"\")", k))
			case 2: // add or rewrite as file configuration
				v := c01PickVal(T, "eval")
				if idx, ok := res.ConfigIndex(k); ok {
					res.Config[idx].Value = append(res.Config[idx].Value[:0], v...)
					res.Config[idx].File = true
				} else {
					res.SetConfig(k, v)
					idx, _ := res.ConfigIndex(k)
					res.Config[idx].File = true
				}
				h.shadow[k] = cfgEnt{v, true}
				desc = append(desc, fmt.Sprintf("file %q=%q", k, v))
			case 3: // flip file<->internal of an existing entry
				if idx, ok := res.ConfigIndex(k); ok {
					res.Config[idx].File = !res.Config[idx].File
					h.shadow[k] = cfgEnt{h.shadow[k].val, res.Config[idx].File}
					desc = append(desc, fmt.Sprintf("flip %q file=%v", k, res.Config[idx].File))
					h.flips++
				}
			case 4: // new measurements / name
				res.Values = genValues(T, true)
				res.Name = Name(genName(T))
				desc = append(desc, "newvals")
			case 5: // change value in place, keep flag
				if idx, ok := res.ConfigIndex(k); ok {
					v := c01PickVal(T, "eval")
					if T.Bool("inplace") {
						res.Config[idx].Value = append(res.Config[idx].Value[:0], v...) // reuse the buffer, as Reader does
					} else {
						res.Config[idx].Value = []byte(v)
					}
					h.shadow[k] = cfgEnt{v, h.shadow[k].file}
					desc = append(desc, fmt.Sprintf("rewrite %q=%q", k, v))
				}
			}
		}
		h.edits++
		return h.write(res, "edit["+strings.Join(desc, ",")+"]")
	}
}

// readAll parses data with a fresh Reader fed through a SimReader.
func c01ReadBack(r *sim.Run, data []byte, quirks bool) ([]*mRec, []string, error) {
	sr := sim.NewSimReader(r, data)
	if quirks {
		sr.Quirks = true
		sr.MaxChunk = []int{0, 1, 2, 7, 64, 4096}[r.T.Intn(6, "rb-chunk")]
	}
	rd := NewReader(sr, "rb")
	var out []*mRec
	var errs []string
	n := 0
	for rd.Scan() {
		n++
		if n > len(data)+10 {
			r.Fail("termination", "reader-scan-unbounded", "Scan returned true %d times on %d bytes", n, len(data))
		}
		switch rec := rd.Result().(type) {
		case *SyntaxError:
			errs = append(errs, rec.Error())
		default:
			out = append(out, modelOf(rec))
		}
	}
	return out, errs, rd.Err()
}

func c01Compare(r *sim.Run, lane string, want, got []*mRec, errs []string, data []byte, faulted bool) {
	for i := range want {
		if i >= len(got) {
			r.Fail("roundtrip", lane+"/record-lost", "record %d of %d missing after read-back (got %d)\nwant: %s\noutput:\n%s", i, len(want), len(got), want[i], quoteOut(data))
		}
		if !want[i].equal(got[i]) {
			sig := "record-differs"
			if !want[i].meta && !got[i].meta && want[i].name == got[i].name && want[i].iters == got[i].iters {
				cfgEq := len(want[i].cfg) == len(got[i].cfg)
				for k, v := range want[i].cfg {
					if got[i].cfg[k] != v {
						cfgEq = false
					}
				}
				if !cfgEq {
					sig = "file-config-differs"
					extra := false
					for k := range got[i].cfg {
						if _, ok := want[i].cfg[k]; !ok {
							extra = true
						}
					}
					if extra {
						sig = "file-config-extra-key"
					}
				} else {
					sig = "values-differ"
				}
			}
			r.Fail("roundtrip", lane+"/"+sig, "record %d differs after read-back\nwant: %s\ngot:  %s\noutput:\n%s", i, want[i], got[i], quoteOut(data))
		}
	}
	if !faulted {
		if len(got) != len(want) {
			r.Fail("roundtrip", lane+"/extra-record", "read back %d records, wrote %d; first extra: %s\noutput:\n%s", len(got), len(want), got[len(want)], quoteOut(data))
		}
		if len(errs) > 0 {
			r.Fail("roundtrip", lane+"/syntax-error-on-readback", "reading the writer's output produced a syntax error: %s\noutput:\n%s", errs[0], quoteOut(data))
		}
	}
}

func quoteOut(b []byte) string {
	s := fmt.Sprintf("%q", b)
	if len(s) > 1500 {
		s = s[:1500] + "…"
	}
	return s
}

func c01LaneAPI(t *testing.T, r *sim.Run, faults bool) {
	T := r.T
	sw := sim.NewSimWriter(r)
	n := T.Small(1, 40, "nrecords")
	if strings.HasPrefix(r.Param, "wsweep:") {
		f := strings.Split(r.Param, ":")
		off, sticky := -1, 0
		fmt.Sscan(f[1], &off)
		fmt.Sscan(f[2], &sticky)
		sw.ErrAtByte, sw.Sticky = off, sticky == 1
		faults = false
		r.Lane = "api-write-sweep"
	}
	if faults {
		switch T.Intn(3, "wfault") {
		case 0:
			sw.ErrAtCall = T.Intn(n+1, "errcall")
		case 1:
			sw.ErrAtByte = T.Intn(40*n+1, "errbyte")
		case 2:
			sw.ErrAtByte = T.Intn(40*n+1, "errbyte")
			sw.Sticky = true
		}
	}
	h := &c01Hist{r: r, T: T, w: NewWriter(sw), metas: map[string]bool{}, sw: sw, transient: r.Lane == "api+transient-failures"}
	failed := false
	for i := 0; i < n; i++ {
		if !h.step() {
			failed = true
			break
		}
	}
	r.Logf("output %s", quoteOut(sw.Buf))
	got, errs, err := c01ReadBack(r, sw.Buf, true)
	if err != nil {
		r.Fail("roundtrip", "api/reader-io-error", "reader reported %v on the writer's output", err)
	}
	c01Compare(r, "api", h.model, got, errs, sw.Buf, failed)
	r.StateHash = sim.HashStr(string(sw.Buf))
	r.Info["outlen"] = fmt.Sprint(len(sw.Buf))
	r.Nontrivial = len(h.model) >= 2 && (h.edits > 0 || len(h.olds) > 1)
	if h.flips > 0 {
		r.Hit("file/internal flip or SetConfig on written key")
	}
	if failed {
		r.Hit("writer stopped after injected write error")
	}
	if h.dropped > 0 {
		r.Hit("writing continued after a transient failure of the sink")
	}
}

var c01Engine = &sim.Engine{
	Prop:  "C01",
	Level: "exploration",
	Rule: "one run = one seeded history of records driven through the real benchfmt.Writer into a simulated sink and read back by the real Reader from a simulated source; " +
		"non-trivial = at least two acknowledged records with a configuration edit or a second distinct result; distinct = distinct (schedule hash, output bytes hash)",
	Assumptions: []string{
		"API-built streams stay in the domain the format can represent (DESIGN.md A.1): valid keys, non-empty file values without leading blank/tab or newline or trailing CR, names/units without white space, distinct (unit,key) metadata",
		"arbitrary-text lane: configuration values do not end in CR after line splitting",
	},
	Real:   []string{"benchfmt.Writer", "benchfmt.Reader", "benchfmt.Result (SetConfig, Clone, ConfigIndex)", "benchunit.Tidy", "bufio.Scanner", "benchproc.Filter (pipeline lane)"},
	Stub:   []string{"io.Writer sink (SimWriter)", "io.Reader source (SimReader)", "pipes between pipeline stages (SimPipe)"},
	Reimpl: []string{"cmd/benchfilter main loop (six lines) inside the filter task"},
	Extra: c01Sweep,
	Run: func(t *testing.T, r *sim.Run, tier string) {
		if r.Param != "" {
			c01LaneAPI(t, r, true)
			return
		}
		switch r.T.Intn(5, "lane") {
		case 4:
			r.Lane = "pipeline"
			c01LanePipeline(t, r)
		case 0, 1:
			r.Lane = "api"
			c01LaneAPI(t, r, false)
		case 2:
			if r.T.Bool("transient-lane") {
				r.Lane = "api+transient-failures"
				c01LaneAPI(t, r, false)
			} else {
				r.Lane = "api+write-faults"
				c01LaneAPI(t, r, true)
			}
		case 3:
			r.Lane = "text"
			c01LaneText(t, r)
		}
	},
}

// c01LaneText: arbitrary text -> Reader -> Writer -> Reader.
func c01LaneText(t *testing.T, r *sim.Run) {
	T := r.T
	nfiles := 1 + T.Intn(3, "nfiles")
	var rd Reader
	sw := sim.NewSimWriter(r)
	w := NewWriter(sw)
	var want []*mRec
	for f := 0; f < nfiles; f++ {
		text := genBenchText(T, genTextOpts{noTrailingCRValue: true, crcrlf: true})
		r.Logf("input file %d: %s", f, quoteOut(text))
		src := sim.NewSimReader(r, text)
		src.MaxChunk = []int{0, 1, 3, 64}[T.Intn(4, "in-chunk")]
		rd.Reset(src, fmt.Sprintf("f%d", f), ".file", fmt.Sprintf("f%d", f))
		n := 0
		for rd.Scan() {
			n++
			if n > len(text)+10 {
				r.Fail("termination", "reader-scan-unbounded", "Scan returned true %d times on %d bytes", n, len(text))
			}
			rec := rd.Result()
			if _, ok := rec.(*SyntaxError); ok {
				continue
			}
			if err := w.Write(rec); err != nil {
				r.Fail("roundtrip", "text/write-error", "unexpected write error %v", err)
			}
			want = append(want, modelOf(rec))
		}
	}
	r.Logf("output %s", quoteOut(sw.Buf))
	got, errs, err := c01ReadBack(r, sw.Buf, true)
	if err != nil {
		r.Fail("roundtrip", "text/reader-io-error", "reader reported %v on the writer's output", err)
	}
	c01Compare(r, "text", want, got, errs, sw.Buf, false)
	r.StateHash = sim.HashStr(string(sw.Buf))
	r.Nontrivial = len(want) >= 2
	_ = bytes.Equal
}

// c01LanePipeline: three tasks under the seeded scheduler, as in
// `producer | benchfilter-like stage | consumer`: producer (API-built history
// -> Writer) -> SimPipe -> stage (Reader -> edits through SetConfig -> Writer)
// -> SimPipe -> consumer (Reader). Pipe capacities are drawn, so every chunk
// boundary is a consequence of the schedule. Either pipe may be closed with an
// error at a drawn record: the consumer must then see an exact prefix.
func c01LanePipeline(t *testing.T, r *sim.Run) {
	T := r.T
	caps := []int{1, 2, 7, 64, 4096, 1 << 16}
	n := T.Small(1, 25, "nrecords")
	stageEdit := T.Intn(4, "stage-edit") // 0 none, 1 internal label, 2 delete a key, 3 both
	delKey := sim.Pick(T, c01Keys, "stage-delkey")
	failProducerAt, failStageAt := -1, -1
	switch T.Intn(5, "pipe-fault") {
	case 3:
		failProducerAt = T.Intn(n+1, "producer-fail-at")
	case 4:
		failStageAt = T.Intn(n+1, "stage-fail-at")
	}
	var model []*mRec    // what the producer wrote (acknowledged)
	var expected []*mRec // after the stage's edits
	var got []*mRec
	var gotErrs []string
	var consumerErr error
	stageSaw := 0
	r.Bubble(t, 400000, func(s *sim.Sched) {
		c01ShortOnly = true
		defer func() { c01ShortOnly = false }()
		p1 := sim.NewSimPipe(r, caps[T.Intn(len(caps), "cap1")])
		p2 := sim.NewSimPipe(r, caps[T.Intn(len(caps), "cap2")])
		s.Go("producer", 0, func() {
			h := &c01Hist{r: r, T: T, w: NewWriter(p1), metas: map[string]bool{}}
			for i := 0; i < n; i++ {
				if i == failProducerAt {
					r.Fault("producer-dies-mid-stream")
					p1.CloseWrite(sim.ErrInjected)
					model = h.model
					return
				}
				if !h.step() {
					break
				}
			}
			model = h.model
			p1.CloseWrite(nil)
		})
		s.Go("stage", 1, func() {
			rd := NewReader(p1, "stage-in")
			w := NewWriter(p2)
			for rd.Scan() {
				rec := rd.Result()
				if _, ok := rec.(*SyntaxError); ok {
					r.Flag("roundtrip", "pipeline/syntax-error-in-stage", "stage read a syntax error from the producer's output: %v", rec)
					continue
				}
				if stageSaw == failStageAt {
					r.Fault("stage-dies-mid-stream")
					p1.CloseRead(sim.ErrInjected)
					p2.CloseWrite(sim.ErrInjected)
					return
				}
				stageSaw++
				if res, ok := rec.(*Result); ok {
					if stageEdit&1 != 0 {
						res.SetConfig("tool", "stage") // internal: must never reach the consumer
					}
					if stageEdit&2 != 0 {
						res.SetConfig(delKey, "")
					}
				}
				if err := w.Write(rec); err != nil {
					p1.CloseRead(err)
					return
				}
			}
			if err := rd.Err(); err != nil {
				p1.CloseRead(err)  // the process exits: its end of the upstream pipe closes (the producer gets EPIPE)
				p2.CloseWrite(err) // propagate the upstream failure
				return
			}
			p2.CloseWrite(nil)
		})
		s.Go("consumer", 2, func() {
			rd := NewReader(p2, "consumer-in")
			for rd.Scan() {
				switch rec := rd.Result().(type) {
				case *SyntaxError:
					gotErrs = append(gotErrs, rec.Error())
				default:
					got = append(got, modelOf(rec))
				}
			}
			consumerErr = rd.Err()
			if consumerErr != nil {
				p2.CloseRead(consumerErr) // a consumer that gives up closes its end of the pipe
			}
		})
		s.Loop()
		r.Probes["pipe stalls (full or empty)"] += p1.Stalls + p2.Stalls
	})
	if r.Failed() {
		return
	}
	for _, m := range model {
		e := *m
		if !m.meta && stageEdit&2 != 0 {
			e.cfg = map[string]string{}
			for k, v := range m.cfg {
				if k != delKey {
					e.cfg[k] = v
				}
			}
		}
		expected = append(expected, &e)
	}
	faulted := failProducerAt >= 0 || failStageAt >= 0
	// with a fault the consumer sees a prefix (the torn tail may add a syntax error or a truncated last record)
	want := expected
	if faulted && len(got) < len(want) {
		want = want[:len(got)]
		if len(gotErrs) == 0 && len(got) > 0 {
			// the last record may be a prefix-truncated line; compare all but the last exactly
			want, got = want[:len(want)-1], got[:len(got)-1]
		}
	}
	if faulted {
		if len(got) > len(expected) {
			r.Fail("roundtrip", "pipeline/extra-record", "consumer read %d records, only %d were written", len(got), len(expected))
		}
		if consumerErr == nil && len(got) < len(expected) && failProducerAt != len(model) {
			// a died stage/producer must surface as an error at the consumer, not as a clean short stream
			r.Fail("roundtrip", "pipeline/failure-looks-like-clean-eof", "a stage died mid-stream (producer at %d, stage at %d) but the consumer saw a clean end after %d of %d records", failProducerAt, failStageAt, len(got), len(expected))
		}
		c01Compare(r, "pipeline", want, got[:len(want)], nil, nil, true)
	} else {
		if consumerErr != nil {
			r.Fail("roundtrip", "pipeline/unexpected-error", "consumer reader reported %v", consumerErr)
		}
		c01Compare(r, "pipeline", want, got, gotErrs, nil, false)
	}
	r.StateHash = sim.HashStr(fmt.Sprint(len(model), len(got), stageEdit, faulted))
	r.Nontrivial = len(got) >= 2
}

// c01Sweep (thorough tier): for seeded API histories, a write error (short
// write) at EVERY byte offset of the output, single-shot and sticky.
func c01Sweep(t *testing.T, w *sim.Worker) {
	defer func() { w.Param = "" }()
	if w.Job.Tier != "thorough" {
		return
	}
	hist, positions := 0, 0
	complete := true
	for k := 0; ; k++ {
		if w.TimeUp() {
			break
		}
		sc := uint64(w.Job.Worker) + uint64(k)*uint64(w.Job.NWorkers)
		seed := sim.Mix(w.Job.Seed, "C01-sweep", sc)
		w.Param = "wsweep:-1:0"
		cr := w.Exec(sim.NewTape(seed), false)
		if !w.Handle(cr, 1<<40+sc, seed) {
			return
		}
		n := 0
		fmt.Sscan(cr.Info["outlen"], &n)
		if cr.V != nil || n == 0 || n > 20000 {
			continue
		}
		tape := cr.T.Values()
		hist++
		for off := 0; off < n; off++ {
			for sticky := 0; sticky < 2; sticky++ {
				if w.TimeUp() {
					complete = false
					break
				}
				w.Param = fmt.Sprintf("wsweep:%d:%d", off, sticky)
				r := w.Exec(sim.ReplayTape(tape), false)
				positions++
				w.Res.Extra["swept-write-fault-offsets"]++
				if !w.Handle(r, 1<<41+sc*100000+uint64(2*off+sticky), seed) {
					return
				}
			}
		}
	}
	w.Param = ""
	w.Res.ExtraInfo["cov_offset_sweep"] = map[string]any{"histories": hist, "positions": positions, "every_byte_offset_of_each_history": complete,
		"note": "short write + error at every byte offset of the writer's output for seeded API histories, single-shot and sticky"}
}

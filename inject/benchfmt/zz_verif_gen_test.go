//go:build verif

package benchfmt

// Text generator and independent line-by-line reference parser for the
// benchmark format (DESIGN.md Appendix A.1), shared by C01 and C02.

import (
	"fmt"
	"strconv"
	"strings"
	"unicode/utf8"

	sim "verif.local/sim"
)

type genTextOpts struct {
	noTrailingCRValue bool
	crcrlf            bool // some lines end in CR CR LF (what the reader makes of the extra CR is not prescribed; a round trip must survive it)
	stress            bool // more distinct keys/units than any small intern table holds
	maxLines          int
	longLine          bool
}

var gtWS = []string{" ", " ", " ", "\t", "  ", " \t", " ", " ", "\t\t ", "\v", "\f", "  ", "\t ", "  ", "  \t", "　", "\r ", " "}
var gtKeys = []string{"a", "goos", "pkg", "k-1", "é", "ключ", "x/y", "a.b", "cpu", "b", "a\x00b", "z\xff", "unit", "benchmark", "u", "a\u01c5", "d\u01c8x"} // title-case letters (neither lower nor upper case) may follow the first letter
var gtVals = []string{"1", "2", "linux", "darwin", "Intel(R) Core(TM) i7", "x  y", "v:1", "é世", "a\tb", "key: value", "Benchmark", "-", "0", "trail  ", "\xffbad", "a b", "BenchmarkX 1 1 ns/op", "Unit ns/op a=b", "\u00a0nb", "nb\u00a0", "vt\v", "\u3000wide\u3000", "c\x1bl"}
var gtSeps = []string{": ", ": ", ":\t", ":  ", ": \t ", ":\t\t"}
var gtNames = []string{"X", "Y", "Foo/bar", "Foo/k=v/j=w-8", "é", "世/x=1", "\xff", "", "A-16", "A/-", "Sub/a=b/c", "*", "X:y", "Esc\x1b[1m", "N\x00ul", "US\x1fx", "x", "lower/case", "ing", "Benchmark", "BenchmarkTwice-4", "_under", "1"}
var gtUnits = []string{"ns/op", "MB/s", "B/op", "allocs/op", "ns/ns", "MB*ns/op", "foo-ns", "xns", "custom", "ns", "sec/op", "B/s", "ns/MB", "é/op", "\xfe/op", "a=b", "u\x1f/op", "\x01ns", "\x1cs/op"}
var gtNums = []string{"1", "0", "5", "100", "1.5", "-3", "+7", "1e9", "1e-9", "0x1p-2", "inf", "+Inf", "-inf", "NaN", "nan", "-0", "1e308", "4.9e-324",
	"123456789012345678", "9223372036854775807", "9223372036854775808", "9999999999999999999", "18446744073709551616", "1234567890123456789", "0.1", ".5", "5.", "0x_1p-2", "00012", "2.5e+3", "3e+23", "7e+25", "1e23", "2e-300", "8.691694759794e-311", "0x1p-1030", "+Infinity", "-infinity", "iNf", "INFINITY", "nAn", "1E5", "0X1P+3", "-.5e-3"}
var gtBadNums = []string{"1_0", "0b1", "abc", "1e999", "1e", "--1", "1..2", "0x", "é", "1,5", "1e99999", "-nan", "+NaN", "-NAN", "infinit", "in", "+-1", "0x1", "1e+", ".", "+", "-"}
var gtIters = []string{"1", "1", "100", "0", "-1", "+5", "1000000000", "9223372036854775807", "007"}
var gtBadIters = []string{"x", "1.5", "9223372036854775808", "99999999999999999999", "1e3", "0x10", "", "1_000"}
var gtForeign = []string{"", "PASS", "ok  \tpkg\t0.1s", "Upper: case", "key with space: v", "keyUpper: v", "key x: v", "nocolon", ":", ": v", "key:value",
	"\xff\xfe: v", "--- BENCH: X", "goos:linux", " a: 1", "\ta: 1", "FAIL", "benchmarkX 1 1 ns/op", " BenchmarkX 1 1 ns/op", "Units ns/op a=b", "unit ns/op a=b", " Unit ns/op a=b",
	"U", "Un", "Unit2 x a=b", "Éa: 1", "ǅa: 1", "1a: x", "-a: x", "a:b: c", "=== RUN   TestX", "    --- PASS", "a : v", " "}
var gtMetaKeys = []string{"better", "assume", "k", "é", "a:b"}
var gtMetaVals = []string{"higher", "lower", "exact", "nothing", "", "x=y", "é"}

func gtWs(T *sim.Tape) string { return sim.Pick(T, gtWS, "ws") }

func genBenchLine(T *sim.Tape, opts genTextOpts, stressN *int) string {
	var b strings.Builder
	b.WriteString("Benchmark")
	b.WriteString(sim.Pick(T, gtNames, "name"))
	bad := T.Intn(12, "benchbad")
	if opts.stress && bad < 6 {
		bad = 6 + bad
	}
	switch bad {
	case 0:
		return b.String() // name only: go test -v chatter
	case 1:
		return b.String() + gtWs(T) // name + trailing blank: missing iterations
	case 2:
		return b.String() + gtWs(T) + sim.Pick(T, gtBadIters, "baditers") + " 1 ns/op"
	}
	b.WriteString(gtWs(T))
	b.WriteString(sim.Pick(T, gtIters, "iters"))
	if bad == 3 {
		return b.String() // no measurements
	}
	n := 1
	kind := T.Intn(10, "nvals-kind")
	if opts.stress && kind < 8 {
		kind = 9 // many measurements per line, each with a unit of its own
	}
	switch kind {
	case 0, 1, 2, 3, 4, 5:
		n = 1 + T.Intn(3, "nvals")
	case 6, 7:
		n = 1 + T.Intn(8, "nvals")
	case 8:
		n = 30 + T.Intn(6, "nvals")
	case 9:
		n = 62 + T.Intn(9, "nvals")
	}
	for i := 0; i < n; i++ {
		b.WriteString(gtWs(T))
		if bad == 4 && i == n-1 {
			b.WriteString(sim.Pick(T, gtBadNums, "badnum"))
		} else {
			b.WriteString(gtNumText(T))
		}
		if bad == 5 && i == n-1 {
			if T.Bool("trail") {
				b.WriteString(gtWs(T))
			}
			return b.String() // missing unit
		}
		b.WriteString(gtWs(T))
		if opts.stress && T.Intn(8, "stressunit") != 0 {
			*stressN++
			fmt.Fprintf(&b, "u%d/op", *stressN)
		} else {
			b.WriteString(sim.Pick(T, gtUnits, "unit"))
		}
	}
	if T.Intn(6, "trailws") == 0 {
		b.WriteString(gtWs(T))
	}
	return b.String()
}

// gtNumText: a number from the pool, or (one time in five) digits drawn one by one: a mantissa of up to 19 digits,
// now and then a decimal point inside it, and an exponent of up to +-40 - the shapes that sit on the borders between
// the reader's fast and exact conversion paths. The reference reading is strconv.ParseFloat in every case.
func gtNumText(T *sim.Tape) string {
	if T.Intn(5, "num-generated") != 0 {
		return sim.Pick(T, gtNums, "num")
	}
	var b strings.Builder
	if T.Intn(4, "num-neg") == 0 {
		b.WriteByte('-')
	}
	nd := 1 + T.Intn(19, "num-ndigits")
	point := -1
	if T.Intn(3, "num-point") == 0 {
		point = T.Intn(nd+1, "num-point-at")
	}
	for i := 0; i < nd; i++ {
		if i == point {
			b.WriteByte('.')
		}
		d := T.Intn(10, "num-digit")
		if i == 0 && d == 0 && nd > 1 {
			d = 1 + T.Intn(9, "num-digit1")
		}
		b.WriteByte(byte('0' + d))
	}
	if point == nd {
		b.WriteByte('.')
	}
	if T.Intn(3, "num-exp") != 0 {
		b.WriteByte("eE"[T.Intn(2, "num-e")])
		e := T.Intn(81, "num-expv") - 40
		if e >= 0 && T.Bool("num-exp-plus") {
			b.WriteByte('+')
		}
		b.WriteString(strconv.Itoa(e))
	}
	return b.String()
}

func genUnitLine(T *sim.Tape) string {
	var b strings.Builder
	b.WriteString("Unit")
	switch T.Intn(10, "unitbad") {
	case 0:
		return b.String() // missing unit
	case 1:
		return b.String() + gtWs(T)
	}
	b.WriteString(gtWs(T))
	b.WriteString(sim.Pick(T, gtUnits, "munit"))
	n := T.Intn(4, "nmeta")
	for i := 0; i < n; i++ {
		b.WriteString(gtWs(T))
		switch T.Intn(8, "metabad") {
		case 0:
			b.WriteString("novalue")
		case 1:
			b.WriteString("=x")
		default:
			b.WriteString(sim.Pick(T, gtMetaKeys, "mkey"))
			b.WriteString("=")
			b.WriteString(sim.Pick(T, gtMetaVals, "mval"))
		}
	}
	return b.String()
}

// genBenchText generates one file's text.
func genBenchText(T *sim.Tape, opts genTextOpts) []byte {
	max := opts.maxLines
	if max == 0 {
		max = 40
	}
	n := T.Small(0, max, "nlines")
	if opts.stress {
		n = 18 + T.Intn(14, "stress-lines") // enough long lines to exceed any small intern table, not more
	}
	var b strings.Builder
	stressN := T.Intn(1000, "stressbase") * 10000
	longAt := -1
	if opts.longLine && n > 0 {
		longAt = T.Intn(n, "longat")
	}
	if n > 0 && T.Intn(12, "bom") == 0 {
		b.WriteString("\xef\xbb\xbf") // a byte order mark: the first line no longer starts with a letter and is a foreign line
	}
	for i := 0; i < n; i++ {
		var line string
		k := T.Intn(16, "linekind")
		if opts.stress && k > 1 && k != 5 && k < 13 {
			k = 8 // benchmark line
		}
		switch {
		case i == longAt:
			line = "Benchmark" + strings.Repeat("L", 70000) + " 1 1 ns/op"
		case k <= 4:
			key := sim.Pick(T, gtKeys, "key")
			if opts.stress && T.Intn(2, "stresskey") == 0 {
				stressN++
				key = fmt.Sprintf("k%d", stressN)
			}
			val := sim.Pick(T, gtVals, "val")
			line = key + sim.Pick(T, gtSeps, "sep") + val
		case k == 5:
			line = sim.Pick(T, gtKeys, "key") + []string{":", ": ", ":\t  ", ":   "}[T.Intn(4, "delsep")]
		case k <= 11:
			line = genBenchLine(T, opts, &stressN)
		case k == 12:
			line = genUnitLine(T)
		default:
			line = sim.Pick(T, gtForeign, "foreign")
		}
		b.WriteString(line)
		last := i == n-1
		switch {
		case last && T.Intn(4, "unterminated") == 0:
		case opts.crcrlf && T.Intn(16, "crcrlf") == 0:
			b.WriteString("\r\r\n") // a file that went through CR-LF conversion twice
		case T.Intn(8, "crlf") == 0:
			b.WriteString("\r\n")
		default:
			b.WriteString("\n")
		}
	}
	return []byte(b.String())
}

// ---------------- reference parser ----------------

// refIsSpace: Unicode White_Space, written out from the Unicode property list.
func refIsSpace(r rune) bool {
	switch {
	case r >= 0x09 && r <= 0x0d, r == 0x20, r == 0x85, r == 0xa0, r == 0x1680,
		r >= 0x2000 && r <= 0x200a, r == 0x2028, r == 0x2029, r == 0x202f, r == 0x205f, r == 0x3000:
		return true
	}
	return false
}

// refFields splits s into maximal runs of non-white-space; also reports
// whether s ends in white space.
func refFields(s string) (fields []string, trailing bool) {
	start := -1
	for i := 0; i < len(s); {
		r, n := utf8.DecodeRuneInString(s[i:])
		sp := !(r == utf8.RuneError && n == 1) && refIsSpace(r)
		if sp {
			if start >= 0 {
				fields = append(fields, s[start:i])
				start = -1
			}
			trailing = true
		} else {
			if start < 0 {
				start = i
			}
			trailing = false
		}
		i += n
	}
	if start >= 0 {
		fields = append(fields, s[start:])
	}
	return
}

type refRec struct {
	kind  string // "result", "meta", "error"
	line  int
	file  string
	name  string
	iters int
	vals  []mVal
	cfg   map[string]string // file configuration in effect
	touched map[string]bool // keys some configuration line of this file has set or removed so far
	// meta
	mUnit, mKey, mVal string
}

func (m *refRec) String() string {
	switch m.kind {
	case "error":
		return fmt.Sprintf("%s:%d: syntax error", m.file, m.line)
	case "meta":
		return fmt.Sprintf("%s:%d: Unit %q %q=%q", m.file, m.line, m.mUnit, m.mKey, m.mVal)
	}
	mm := &mRec{name: m.name, iters: m.iters, vals: m.vals, cfg: m.cfg}
	return fmt.Sprintf("%s:%d: %s", m.file, m.line, mm)
}

// refTidyUnit: each "ns"/"MB" component in the numerator becomes "sec"/"B".
// Components are separated by '/', '*' and '-' ('/' opens the denominator,
// '*' returns to the numerator). Works on bytes so invalid UTF-8 is kept.
func refTidyUnit(u string) string {
	var out []byte
	denom := false
	tok := []byte{}
	flush := func() {
		switch {
		case !denom && string(tok) == "ns":
			out = append(out, "sec"...)
		case !denom && string(tok) == "MB":
			out = append(out, "B"...)
		default:
			out = append(out, tok...)
		}
		tok = tok[:0]
	}
	for i := 0; i < len(u); i++ {
		c := u[i]
		switch c {
		case '*':
			flush()
			denom = false
			out = append(out, c)
		case '/':
			flush()
			denom = true
			out = append(out, c)
		case '-':
			flush()
			out = append(out, c)
		default:
			tok = append(tok, c)
		}
	}
	flush()
	return string(out)
}

// refTidyFactor: 1e-9 per "ns" and 1e6 per "MB" component in the numerator.
func refTidyFactor(u string) float64 {
	f := 1.0
	denom := false
	tok := ""
	flush := func() {
		if !denom {
			switch tok {
			case "ns":
				f *= 1e-9
			case "MB":
				f *= 1e6
			}
		}
		tok = ""
	}
	for i := 0; i < len(u); i++ {
		switch u[i] {
		case '*':
			flush()
			denom = false
		case '/':
			flush()
			denom = true
		case '-':
			flush()
		default:
			tok += string(u[i])
		}
	}
	flush()
	return f
}

// refUnicodeLower/Upper cover the scripts the generator uses (ASCII, Latin-1,
// basic Cyrillic, Latin Extended-B titlecase digraphs are neither).
func refUnicodeLower(r rune) bool {
	switch {
	case r >= 'a' && r <= 'z', r == 0xb5, r >= 0xdf && r <= 0xf6, r >= 0xf8 && r <= 0xff, r >= 0x430 && r <= 0x45f:
		return true
	}
	return false
}

func refUnicodeUpper(r rune) bool {
	switch {
	case r >= 'A' && r <= 'Z', r >= 0xc0 && r <= 0xd6, r >= 0xd8 && r <= 0xde, r >= 0x400 && r <= 0x42f:
		return true
	}
	return false
}

// refParser holds the state that outlives a file (unit metadata).
type refParser struct {
	units map[[2]string]string // (tidied unit, key) -> value
}

func refSplitLines(text string) []string {
	var lines []string
	for len(text) > 0 {
		i := strings.IndexByte(text, '\n')
		var l string
		if i < 0 {
			l, text = text, ""
		} else {
			l, text = text[:i], text[i+1:]
		}
		l = strings.TrimRight(l, "\r") // CRs before the LF belong to the line end
		lines = append(lines, l)
	}
	return lines
}

// refKeyValue implements the configuration-line rule of Appendix A.1.
func refKeyValue(line string) (key, val string, ok bool) {
	colon := -1
	for i := 0; i < len(line); {
		r, n := utf8.DecodeRuneInString(line[i:])
		invalid := r == utf8.RuneError && n == 1
		if i == 0 {
			if invalid || !refUnicodeLower(r) {
				return
			}
		}
		if !invalid && (refIsSpace(r) || refUnicodeUpper(r)) {
			return
		}
		if i > 0 && r == ':' {
			colon = i
			break
		}
		i += n
	}
	if colon <= 0 {
		return
	}
	key, rest := line[:colon], line[colon+1:]
	if rest == "" {
		return key, "", true
	}
	if rest[0] != ' ' && rest[0] != '\t' {
		return "", "", false
	}
	return key, strings.TrimLeft(rest, " \t"), true
}

// parseFile returns the records the format prescribes for one file.
func (p *refParser) parseFile(file string, text string) []*refRec {
	if p.units == nil {
		p.units = map[[2]string]string{}
	}
	var out []*refRec
	cfg := map[string]string{}
	touched := map[string]bool{}
	for ln, line := range refSplitLines(text) {
		lineNo := ln + 1
		synErr := func() { out = append(out, &refRec{kind: "error", line: lineNo, file: file}) }
		if strings.HasPrefix(line, "Benchmark") {
			fields, trailing := refFields(line)
			var name string
			// the first field may be empty only if the line is "Benchmark" followed by white space
			if len(fields) > 0 && strings.HasPrefix(fields[0], "Benchmark") {
				name = fields[0][len("Benchmark"):]
				fields = fields[1:]
			} else {
				name = ""
			}
			if len(fields) == 0 && !trailing {
				continue // go test -v chatter
			}
			if len(fields) == 0 {
				synErr()
				continue
			}
			iters, err := strconv.Atoi(fields[0])
			if err != nil {
				synErr()
				continue
			}
			fields = fields[1:]
			if len(fields) == 0 || len(fields)%2 != 0 {
				// zero pairs or a value without unit; but a bad number earlier is also just one error
				synErr()
				continue
			}
			rec := &refRec{kind: "result", line: lineNo, file: file, name: name, iters: iters, cfg: map[string]string{}}
			bad := false
			for i := 0; i < len(fields); i += 2 {
				v, err := strconv.ParseFloat(fields[i], 64)
				if err != nil {
					bad = true
					break
				}
				rec.vals = append(rec.vals, mVal{v, fields[i+1]})
			}
			if bad {
				synErr()
				continue
			}
			for k, v := range cfg {
				rec.cfg[k] = v
			}
			rec.touched = map[string]bool{}
			for k := range touched {
				rec.touched[k] = true
			}
			out = append(out, rec)
			continue
		}
		if fields, _ := refFields(line); len(fields) > 0 && fields[0] == "Unit" && strings.HasPrefix(line, "Unit") {
			if len(fields) == 1 {
				synErr()
				continue
			}
			unit := fields[1]
			tu := refTidyUnit(unit)
			for _, f := range fields[2:] {
				eq := strings.IndexByte(f, '=')
				if eq <= 0 {
					synErr()
					continue
				}
				k, v := f[:eq], f[eq+1:]
				if have, ok := p.units[[2]string{tu, k}]; ok {
					if have != v {
						synErr()
					}
					continue
				}
				p.units[[2]string{tu, k}] = v
				out = append(out, &refRec{kind: "meta", line: lineNo, file: file, mUnit: unit, mKey: k, mVal: v})
			}
			continue
		}
		if k, v, ok := refKeyValue(line); ok {
			touched[k] = true
			if v == "" {
				delete(cfg, k)
			} else {
				cfg[k] = v
			}
		}
	}
	return out
}

//go:build verif

package benchfmt

// C02 — reader line/scoping rules (streamsim).

import (
	"math"
	"errors"
	"fmt"
	"os"
	"path/filepath"
	"sort"
	"strings"
	"testing"

	sim "verif.local/sim"
)

func cfgString(res *Result) string {
	var parts []string
	for _, c := range res.Config {
		parts = append(parts, fmt.Sprintf("%q=%q/%v", c.Key, c.Value, c.File))
	}
	sort.Strings(parts)
	return strings.Join(parts, " ")
}

// snapshot serialises everything observable about a result.
func snapshotResult(res *Result) string {
	f, l := res.Pos()
	var b strings.Builder
	fmt.Fprintf(&b, "%s:%d %q %d [", f, l, res.Name, res.Iters)
	for _, v := range res.Values {
		fmt.Fprintf(&b, "%x %q %x %q;", mathBits(v.Value), v.Unit, mathBits(v.OrigValue), v.OrigUnit)
	}
	b.WriteString("] ")
	b.WriteString(cfgString(res))
	return b.String()
}

func mathBits(f float64) uint64 {
	if f != f {
		return 0x7ff8000000000001
	}
	return math.Float64bits(f)
}

type c02Clone struct {
	res  *Result
	snap string
	at   string
}

type c02State struct {
	r      *sim.Run
	lane   string
	labels map[string]string // tool labels expected on every result of the current file
	clones []c02Clone
	seenStr map[string]bool
	nrec   int
}

// checkRecord compares one record from the reader with the reference.
func (st *c02State) checkRecord(got Record, want *refRec, idx int, ctx string) {
	r := st.r
	lane := st.lane
	gf, gl := got.Pos()
	switch g := got.(type) {
	case *Result:
		if want.kind != "result" {
			r.Fail("records", lane+"/kind-differs", "%s record %d: reader gave a result (%s) where the format prescribes %s", ctx, idx, snapshotResult(g), want)
		}
		if gf != want.file || gl != want.line {
			r.Fail("records", lane+"/position-differs", "%s record %d: position %s:%d, want %s:%d", ctx, idx, gf, gl, want.file, want.line)
		}
		m := modelOf(g)
		wm := &mRec{name: want.name, iters: want.iters, vals: want.vals, cfg: want.cfg}
		if m.name != wm.name || m.iters != wm.iters {
			r.Fail("records", lane+"/name-or-iters-differ", "%s record %d: got %s\nwant %s", ctx, idx, m, want)
		}
		if len(m.vals) != len(wm.vals) {
			r.Fail("records", lane+"/values-differ", "%s record %d: got %s\nwant %s", ctx, idx, m, want)
		}
		for i := range m.vals {
			if m.vals[i].unit != wm.vals[i].unit || !sameFloat(m.vals[i].v, wm.vals[i].v) {
				r.Fail("records", lane+"/values-differ", "%s record %d value %d: got %v %q want %v %q\ngot %s\nwant %s", ctx, idx, i, m.vals[i].v, m.vals[i].unit, wm.vals[i].v, wm.vals[i].unit, m, want)
			}
		}
		// the reported form of each measurement: the base unit with the value scaled to it and the pair as written kept
		// alongside, or - where the written unit is a base unit already - just that pair. (For zero, infinite and NaN
		// values the reader keeps the written pair as it is; whether it should is C04's business, not asserted here.)
		for i := range g.Values {
			if i >= len(wm.vals) {
				break
			}
			v, wv, wu := g.Values[i], wm.vals[i].v, wm.vals[i].unit
			tidy, factor := refTidyUnit(wu), refTidyFactor(wu)
			plain := v.Unit == wu && v.OrigUnit == "" && sameFloat(v.Value, wv)
			scaled := v.Unit == tidy && v.OrigUnit == wu && sameFloat(v.OrigValue, wv) && c02Close(v.Value, wv*factor)
			if tidy == wu && scaled {
				plain = true // the written pair kept alongside although nothing was rescaled (the reader does so for NaN): same information
			}
			switch {
			case tidy == wu && !plain:
				r.Fail("records", lane+"/measurement-form-differs", "%s record %d value %d: %v %q is in a base unit already, reader reports {%v %q orig %v %q}", ctx, idx, i, wv, wu, v.Value, v.Unit, v.OrigValue, v.OrigUnit)
			case tidy != wu && wv != 0 && !math.IsInf(wv, 0) && !math.IsNaN(wv) && !scaled:
				r.Fail("records", lane+"/measurement-form-differs", "%s record %d value %d: %v %q should be reported as %v %q with the written pair kept, reader reports {%v %q orig %v %q}", ctx, idx, i, wv, wu, wv*factor, tidy, v.Value, v.Unit, v.OrigValue, v.OrigUnit)
			case tidy != wu && !plain && !scaled:
				r.Fail("records", lane+"/measurement-form-differs", "%s record %d value %d: %v %q reported as {%v %q orig %v %q}", ctx, idx, i, wv, wu, v.Value, v.Unit, v.OrigValue, v.OrigUnit)
			}
		}
		if !m.equal(wm) {
			sig := "file-config-differs"
			for k := range m.cfg {
				if _, ok := wm.cfg[k]; !ok {
					sig = "file-config-stale-key"
				}
			}
			r.Fail("records", lane+"/"+sig, "%s record %d: got %s\nwant %s", ctx, idx, m, want)
		}
		// tool labels: exactly the internal entries
		internal := map[string]string{}
		seen := map[string]bool{}
		for i, c := range g.Config {
			if seen[c.Key] {
				r.Fail("records", lane+"/duplicate-config-key", "%s record %d: key %q appears twice in Config: %s", ctx, idx, c.Key, cfgString(g))
			}
			seen[c.Key] = true
			if !c.File {
				internal[c.Key] = string(c.Value)
			}
			if pos, ok := g.ConfigIndex(c.Key); !ok || pos != i {
				r.Fail("records", lane+"/config-index-stale", "%s record %d: ConfigIndex(%q) = %d,%v but the key is at %d: %s", ctx, idx, c.Key, pos, ok, i, cfgString(g))
			}
			if g.GetConfig(c.Key) != string(c.Value) {
				r.Fail("records", lane+"/config-index-stale", "%s record %d: GetConfig(%q) = %q, entry holds %q", ctx, idx, c.Key, g.GetConfig(c.Key), c.Value)
			}
			st.seenStr[c.Key] = true
		}
		// a label supplied by the tool stays tool-internal until a configuration line of the file sets the
		// same key (it is file configuration from then on, whatever the value) or removes it
		wantInternal := map[string]string{}
		for k, v := range st.labels {
			if !want.touched[k] {
				wantInternal[k] = v
			} else {
				r.Hit("tool label overridden or removed by a file line")
			}
		}
		if len(internal) != len(wantInternal) {
			r.Fail("records", lane+"/tool-labels-differ", "%s record %d: internal labels %v, want %v", ctx, idx, internal, wantInternal)
		}
		for k, v := range wantInternal {
			if internal[k] != v {
				r.Fail("records", lane+"/tool-labels-differ", "%s record %d: internal labels %v, want %v", ctx, idx, internal, wantInternal)
			}
		}
		for _, v := range g.Values {
			st.seenStr[v.Unit] = true
		}
		// clone a drawn subset; the clone must never change afterwards
		if len(st.clones) < 12 && r.T.Intn(4, "clone") == 0 {
			c := g.Clone()
			st.clones = append(st.clones, c02Clone{c, snapshotResult(g), fmt.Sprintf("%s:%d", gf, gl)})
			if s := snapshotResult(c); s != st.clones[len(st.clones)-1].snap {
				r.Fail("clone", lane+"/clone-not-equal", "clone differs from the original at clone time: %s vs %s", s, st.clones[len(st.clones)-1].snap)
			}
		}
	case *SyntaxError:
		if want.kind != "error" {
			r.Fail("records", lane+"/kind-differs", "%s record %d: reader gave syntax error %q where the format prescribes %s", ctx, idx, g.Error(), want)
		}
		if gf != want.file || gl != want.line {
			r.Fail("records", lane+"/position-differs", "%s record %d: error position %s:%d, want %s:%d", ctx, idx, gf, gl, want.file, want.line)
		}
	case *UnitMetadata:
		if want.kind != "meta" {
			r.Fail("records", lane+"/kind-differs", "%s record %d: reader gave unit metadata %q %q=%q where the format prescribes %s", ctx, idx, g.OrigUnit, g.Key, g.Value, want)
		}
		if gf != want.file || gl != want.line {
			r.Fail("records", lane+"/position-differs", "%s record %d: metadata position %s:%d, want %s:%d", ctx, idx, gf, gl, want.file, want.line)
		}
		if g.OrigUnit != want.mUnit || g.Key != want.mKey || g.Value != want.mVal {
			r.Fail("records", lane+"/metadata-differs", "%s record %d: got Unit %q %q=%q want %s", ctx, idx, g.OrigUnit, g.Key, g.Value, want)
		}
	default:
		r.Fail("records", lane+"/unknown-record-type", "%T", got)
	}
	st.nrec++
}

func (st *c02State) checkClones() {
	for _, c := range st.clones {
		if s := snapshotResult(c.res); s != c.snap {
			st.r.Fail("clone", st.lane+"/clone-changed", "result cloned at %s changed while reading continued:\nthen %s\nnow  %s", c.at, c.snap, s)
		}
	}
}

func (st *c02State) checkUnits(got UnitMetadataMap, ref *refParser) {
	want := ref.units
	if len(got) != len(want) {
		st.r.Fail("units", st.lane+"/units-map-differs", "Units() has %d entries, the format prescribes %d", len(got), len(want))
	}
	for k, v := range want {
		md := got[UnitMetadataKey{k[0], k[1]}]
		if md == nil || md.Value != v {
			st.r.Fail("units", st.lane+"/units-map-differs", "Units()[%q,%q] = %v, want value %q", k[0], k[1], md, v)
		}
	}
}

// scanAll drives Scan to the end comparing against want. Returns records seen.
func (st *c02State) scanAll(scan func() bool, result func() Record, want []*refRec, limit int, ctx string, stopAfter int) int {
	n := 0
	for scan() {
		if n >= limit {
			st.r.Fail("termination", st.lane+"/scan-unbounded", "%s: Scan returned true more than %d times", ctx, limit)
		}
		if n >= len(want) {
			rec := result()
			f, l := rec.Pos()
			st.r.Fail("records", st.lane+"/extra-record", "%s: reader produced record %d at %s:%d beyond the %d the format prescribes: %T", ctx, n, f, l, len(want), rec)
		}
		st.checkRecord(result(), want[n], n, ctx)
		n++
		if stopAfter >= 0 && n >= stopAfter {
			return n
		}
	}
	return n
}

var c02Tmp string

func c02Close(a, b float64) bool {
	return a == b || (math.IsNaN(a) && math.IsNaN(b)) || math.Abs(a-b) <= 1e-12*math.Abs(b)
}

func c02NoPanic(r *sim.Run, what string, f func()) {
	defer func() {
		if p := recover(); p != nil {
			r.Fail("termination", "reader/panic", "%s panicked: %v", what, p)
		}
	}()
	f()
}

func c02LaneReader(t *testing.T, r *sim.Run) {
	T := r.T
	st := &c02State{r: r, lane: "reader", seenStr: map[string]bool{}}
	rd := new(Reader)
	ref := &refParser{}
	nfiles := 1 + T.Intn(5, "nfiles")
	opts := genTextOpts{crcrlf: true}
	// systematic sweep (thorough tier): "sweep:<err|cut|none>:<offset>" forces one fault position on a one-file history
	sweepKind, sweepOff := "", 0
	if strings.HasPrefix(r.Param, "sweep:") {
		f := strings.Split(r.Param, ":")
		sweepKind = f[1]
		fmt.Sscan(f[2], &sweepOff)
		nfiles = 1
		r.Lane = "reader-sweep"
	}
	mode := T.Intn(16, "mode")
	switch mode {
	case 8:
		// more distinct keys and units than any small intern table holds; large text, so no byte-sized chunks
		opts.stress = true
		opts.maxLines = 120
		if nfiles > 2 {
			nfiles = 2
		}
		r.Info["mode"] = "intern-stress"
	case 1:
		opts.maxLines = 200
		r.Info["mode"] = "long-files"
	case 2:
		opts.longLine = T.Intn(4, "longline") == 0
	}
	faulted := false
	for f := 0; f < nfiles; f++ {
		text := genBenchText(T, opts)
		fname := fmt.Sprintf("f%d", f)
		st.labels = map[string]string{}
		var init []string
		nl := T.Intn(3, "nlabels")
		for i := 0; i < nl; i++ {
			k := []string{".file", ".tool", ".x"}[i]
			v := fmt.Sprintf("%s-%d", fname, i)
			if T.Intn(3, "label-settable") == 0 {
				// a label under a key that lines of the file may set as well, sometimes to the very same value
				k = sim.Pick(T, gtKeys[:10], "label-key")
				v = sim.Pick(T, gtVals, "label-val")
				if _, dup := st.labels[k]; dup {
					continue
				}
			}
			init = append(init, k, v)
			st.labels[k] = v
			if k[0] != '.' && T.Bool("label-echoed") {
				// the file states the tool's label itself, with the same value, at a drawn line
				starts := []int{0}
				for j, c := range text {
					if c == '\n' && j+1 < len(text) {
						starts = append(starts, j+1)
					}
				}
				at := starts[T.Intn(len(starts), "echo-at")]
				text = append(append(append([]byte(nil), text[:at]...), (k+": "+v+"\n")...), text[at:]...)
			}
		}
		src := sim.NewSimReader(r, text)
		src.Quirks = T.Bool("quirks")
		src.MaxChunk = []int{0, 1, 2, 5, 64, 4096, 100000}[T.Intn(7, "chunk")]
		if opts.stress && src.MaxChunk > 0 && src.MaxChunk < 64 {
			src.MaxChunk = 512
		}
		delivered := string(text)
		wantErr := false
		rf := T.Intn(6, "rfault")
		if sweepKind != "" {
			rf = 0
			r.Info["len"] = fmt.Sprint(len(text))
			if sweepOff > len(text) {
				sweepOff = len(text)
			}
			switch sweepKind {
			case "err":
				src.ErrAt, delivered, wantErr = sweepOff, string(text[:sweepOff]), true
			case "cut":
				src.CutAt, delivered = sweepOff, string(text[:sweepOff])
			}
		}
		switch rf {
		case 4:
			if len(text) > 0 {
				src.ErrAt = T.Intn(len(text)+1, "errat")
				delivered = string(text[:src.ErrAt])
				wantErr = true
			}
		case 5:
			if len(text) > 0 {
				src.CutAt = T.Intn(len(text)+1, "cutat")
				delivered = string(text[:src.CutAt])
			}
		}
		r.Logf("file %s labels=%v chunk=%d quirks=%v errAt=%d cutAt=%d text=%s", fname, init, src.MaxChunk, src.Quirks, src.ErrAt, src.CutAt, quoteOut(text))
		given := fname
		if T.Intn(12, "unnamed-file") == 0 {
			given, fname = "", "<unknown>" // the documented stand-in in positions
		}
		if f == 0 && len(init) == 0 && T.Bool("constructor") {
			rd = NewReader(src, given)
		} else {
			rd.Reset(src, given, init...)
		}
		// snapshot of the unit table: a file abandoned midway still contributes the metadata it delivered
		want := ref.parseFile(fname, delivered)
		// bufio.Scanner's contract: a line of bufio.MaxScanTokenSize bytes or more may end the file with
		// ErrTooLong (records before it exact); a reader without that limit yields the full reference parse.
		tooLong := false
		cutIdx := len(want)
		for i, l := range refSplitLines(delivered) {
			if len(l) >= 65536 {
				cutIdx = 0
				for _, w := range want {
					if w.line < i+1 {
						cutIdx++
					}
				}
				tooLong = true
				break
			}
		}
		stopAfter := -1
		if T.Intn(8, "abandon") == 0 && len(want) > 0 && !tooLong {
			stopAfter = T.Intn(len(want), "abandon-at")
			r.Hit("file abandoned midway then Reset")
		}
		if T.Intn(6, "result-before-scan") == 0 {
			// Result before the first Scan of a file: whatever it returns, it is not a panic
			c02NoPanic(r, "Result() right after Reset", func() { rd.Result() })
		}
		n := st.scanAll(rd.Scan, rd.Result, want, len(text)+10, fname, stopAfter)
		if T.Intn(4, "result-after-scan") == 0 {
			c02NoPanic(r, "Result() after the records ran out or the file was left", func() { rd.Result() })
		}
		if stopAfter >= 0 {
			// abandoned: the reference's unit table must forget metadata from records not consumed
			// (metadata is registered when the line is parsed; lines parsed are those up to the last consumed record's line,
			// but a line's records are queued together, so keep the reference simple: rebuild the table from what Units() may hold)
			ref.units = map[[2]string]string{}
			for k, v := range rd.Units() {
				ref.units[[2]string{k.Unit, k.Key}] = v.Value
			}
			continue
		}
		if tooLong {
			switch {
			case n == cutIdx && rd.Err() != nil: // stopped at the over-long line with an error
			case n == len(want) && !wantErr && rd.Err() == nil: // handled the long line
			case n == len(want) && wantErr && errors.Is(rd.Err(), sim.ErrInjected): // handled it, then met the injected read error
			default:
				r.Fail("records", "reader/long-line-lost", "%s: a line of 64KiB or more: reader stopped after %d records with Err=%v; the format prescribes %d records before that line and %d in all", fname, n, rd.Err(), cutIdx, len(want))
			}
			r.Hit("line longer than the scanner buffer")
			faulted = true
			break
		}
		if n < len(want) {
			r.Fail("records", "reader/missing-record", "%s: reader stopped after %d records, the format prescribes %d; next expected: %s (Err=%v)", fname, n, len(want), want[n], rd.Err())
		}
		if rd.Scan() {
			r.Fail("termination", "reader/scan-after-end", "%s: Scan returned true after it had returned false", fname)
		}
		err := rd.Err()
		if wantErr {
			if err == nil {
				r.Fail("errors", "reader/io-error-swallowed", "%s: injected read error at offset %d was not reported by Err()", fname, src.ErrAt)
			}
			if !errors.Is(err, sim.ErrInjected) {
				r.Fail("errors", "reader/io-error-not-wrapped", "%s: Err() = %v does not wrap the injected error", fname, err)
			}
			if !strings.HasPrefix(err.Error(), fname+":") {
				r.Fail("errors", "reader/io-error-unpositioned", "%s: Err() = %q carries no file:line position", fname, err)
			}
			faulted = true
			r.Hit("read error mid-file, prefix parsed exactly")
			// the reader is unusable for this file; continue with the next file via Reset
		} else if err != nil {
			r.Fail("errors", "reader/unexpected-error", "%s: Err() = %v on a clean stream", fname, err)
		}
		st.checkUnits(rd.Units(), ref)
	}
	st.checkClones()
	r.Info["distinct-strings"] = fmt.Sprint(len(st.seenStr))
	if len(st.seenStr) > 1024 {
		r.Hit("more than 1024 distinct keys/units through one reader")
	}
	if len(st.clones) > 0 {
		r.Hit("clones held across later scans")
	}
	r.StateHash = sim.HashStr(fmt.Sprint(st.nrec, len(st.clones), len(ref.units), faulted))
	r.Nontrivial = st.nrec >= 2
}

// c02LaneFiles reads real temporary files through benchfmt.Files.
func c02LaneFiles(t *testing.T, r *sim.Run) {
	T := r.T
	st := &c02State{r: r, lane: "files", seenStr: map[string]bool{}}
	if c02Tmp == "" {
		c02Tmp = t.TempDir()
	}
	ndistinct := 1 + T.Intn(3, "ndistinct")
	texts := make([][]byte, ndistinct)
	paths := make([]string, ndistinct)
	for i := range texts {
		texts[i] = genBenchText(T, genTextOpts{crcrlf: true})
		paths[i] = filepath.Join(c02Tmp, fmt.Sprintf("in%d.txt", i))
		if err := os.WriteFile(paths[i], texts[i], 0o644); err != nil {
			panic(err)
		}
		r.Logf("file in%d.txt: %s", i, quoteOut(texts[i]))
	}
	type arg struct {
		arg, path, label string
		labeled          bool
		idx              int // index into texts, -1 missing, -2 directory
	}
	nargs := 1 + T.Intn(4, "nargs")
	var args []arg
	count := map[string]int{}
	for i := 0; i < nargs; i++ {
		a := arg{idx: T.Intn(ndistinct, "which")}
		switch T.Intn(12, "argfault") {
		case 0:
			a.idx = -1
			a.path = filepath.Join(c02Tmp, "missing.txt")
		case 1:
			a.idx = -2
			a.path = c02Tmp
		default:
			a.path = paths[a.idx]
		}
		if T.Intn(3, "labeled") == 0 {
			a.labeled = true
			a.label = []string{"L0", "L1", "go1.21/old", "a/b/c", "x.y", "é"}[T.Intn(6, "labelname")]
			if T.Intn(6, "label-is-path") == 0 {
				a.label = a.path // a label spelled like the path is still a label: used verbatim, never numbered
			}
			a.arg = a.label + "=" + a.path
		} else {
			a.arg = a.path
			count[a.path]++
		}
		args = append(args, a)
	}
	seenN := map[string]int{}
	var argv []string
	for i := range args {
		a := &args[i]
		argv = append(argv, a.arg)
		if a.labeled {
			continue
		}
		if count[a.path] > 1 {
			a.label = fmt.Sprintf("%s#%d", a.path, seenN[a.path])
			seenN[a.path]++
		} else {
			a.label = a.path
		}
	}
	r.Logf("Files{Paths:%s}", strings.ReplaceAll(fmt.Sprintf("%q", argv), c02Tmp, "$TMP"))
	files := Files{Paths: argv, AllowLabels: true}
	ref := &refParser{}
	// Files exposes one Scan loop over all files: build the whole expected sequence
	var want []*refRec
	var labels []map[string]string
	// a path that cannot be read: the sequence either ends there or carries on with the remaining files (the statement
	// prescribes neither); in both cases Err() tells, and what is delivered is what the files that were read hold
	failAt := -1
	nStop := -1
	stops := map[int]bool{}
	for i, a := range args {
		if a.idx < 0 {
			if failAt < 0 {
				failAt = i
				nStop = len(want)
				r.Fault(map[int]string{-1: "missing-file", -2: "directory-as-file"}[a.idx])
			}
			stops[len(want)] = true // the sequence may end at any argument that cannot be read
			continue
		}
		recs := ref.parseFile(a.path, string(texts[a.idx]))
		for range recs {
			labels = append(labels, map[string]string{".file": a.label})
		}
		want = append(want, recs...)
	}
	if nStop < 0 {
		nStop = len(want)
	}
	n := 0
	limit := 10
	for _, tx := range texts {
		limit += (len(tx) + 10) * nargs
	}
	for files.Scan() {
		if n >= limit {
			r.Fail("termination", "files/scan-unbounded", "Scan returned true more than %d times", limit)
		}
		if n >= len(want) {
			rec := files.Result()
			f, l := rec.Pos()
			r.Fail("records", "files/extra-record", "Files produced record %d at %s:%d beyond the %d the format prescribes", n, f, l, len(want))
		}
		st.labels = labels[n]
		st.checkRecord(files.Result(), want[n], n, "files")
		n++
	}
	if n != len(want) && !stops[n] {
		next := "-"
		if n < len(want) {
			next = want[n].String()
		}
		r.Fail("records", "files/missing-record", "Files stopped after %d records; the files before the unreadable one hold %d, all readable ones %d; next expected: %s (Err=%v)", n, nStop, len(want), next, files.Err())
	}
	if failAt >= 0 {
		if files.Err() == nil {
			r.Fail("errors", "files/open-error-swallowed", "argument %d (%s) cannot be read but Err() is nil", failAt, args[failAt].arg)
		}
	} else if files.Err() != nil {
		r.Fail("errors", "files/unexpected-error", "Err() = %v", files.Err())
	}
	if files.Scan() {
		r.Fail("termination", "files/scan-after-end", "Scan returned true after it had returned false")
	}
	if failAt < 0 {
		st.checkUnits(files.Units(), ref)
	}
	st.checkClones()
	if len(seenN) > 0 {
		r.Hit("duplicate path disambiguated with #N")
	}
	r.StateHash = sim.HashStr(fmt.Sprint(st.nrec, len(args), failAt))
	r.Nontrivial = st.nrec >= 2 && len(args) >= 2
}

var c02Engine = &sim.Engine{
	Prop:  "C02",
	Level: "exploration",
	Rule: "one run = a seeded history of 1-5 generated files read through one reused benchfmt.Reader (Reset between files, tool labels, clones held, files abandoned midway) from a simulated source with drawn chunking, zero-length reads, data+EOF, read errors and truncation at drawn offsets, or through benchfmt.Files over real temporary files; every record is compared with an independent line-by-line reference parser; " +
		"non-trivial = at least two records compared; distinct = distinct (lane, record/clone/unit-table/fault summary)",
	Assumptions: []string{
		"tool labels use keys starting with '.', which no file line can set (as benchfmt.Files does), or - one time in three - a key and value that lines of the file set as well",
		"measurement values are compared in written form against strconv.ParseFloat; unit normalisation (C04) and exhaustive number syntax (C03) are out of scope",
		"lower/upper-case classification in the reference covers ASCII, Latin-1 and basic Cyrillic, the scripts the generator uses",
		"a line longer than bufio.MaxScanTokenSize may end the file with an error (bufio.Scanner's contract); records before it must be exact",
	},
	Real: []string{"benchfmt.Reader", "benchfmt.Files", "benchfmt.Result", "bufio.Scanner", "benchunit.Tidy", "os.Open on real temporary files (Files lane)"},
	Stub: []string{"io.Reader source (SimReader)"},
	Run: func(t *testing.T, r *sim.Run, tier string) {
		r.OwnMapOrder(true)
		if r.Param != "" {
			c02LaneReader(t, r)
			return
		}
		if r.T.Intn(5, "lane") == 4 {
			r.Lane = "files"
			c02LaneFiles(t, r)
		} else {
			r.Lane = "reader"
			c02LaneReader(t, r)
		}
	},
	Extra: c02Sweep,
}

// c02Sweep (thorough tier): for seeded one-file inputs, a read error and a
// truncation at EVERY byte offset.
func c02Sweep(t *testing.T, w *sim.Worker) {
	defer func() { w.Param = "" }()
	if w.Job.Tier != "thorough" {
		return
	}
	inputs, positions := 0, 0
	complete := true
	for k := 0; ; k++ {
		if w.TimeUp() {
			break
		}
		sc := uint64(w.Job.Worker) + uint64(k)*uint64(w.Job.NWorkers)
		seed := sim.Mix(w.Job.Seed, "C02-sweep", sc)
		w.Param = "sweep:none:0"
		cr := w.Exec(sim.NewTape(seed), false)
		if !w.Handle(cr, 1<<40+sc, seed) {
			return
		}
		n := 0
		fmt.Sscan(cr.Info["len"], &n)
		if cr.V != nil || n == 0 || n > 20000 {
			continue
		}
		tape := cr.T.Values()
		inputs++
		for off := 0; off <= n; off++ {
			for _, kind := range []string{"err", "cut"} {
				if w.TimeUp() {
					complete = false
					break
				}
				w.Param = fmt.Sprintf("sweep:%s:%d", kind, off)
				r := w.Exec(sim.ReplayTape(tape), false)
				positions++
				w.Res.Extra["swept-read-fault-offsets"]++
				if !w.Handle(r, 1<<41+sc*100000+uint64(2*off), seed) {
					return
				}
			}
		}
	}
	w.Param = ""
	w.Res.ExtraInfo["cov_offset_sweep"] = map[string]any{"inputs": inputs, "positions": positions, "every_byte_offset_of_each_input": complete,
		"note": "read error and truncation at every byte offset of seeded one-file inputs; a worker that runs out of time leaves its last input incomplete"}
}

func TestVerifWorker(t *testing.T) {
	sim.WorkerMain(t, c01Engine, c02Engine)
}

//go:build verif

package main

// C15 race lane: the same inputs run through the real benchstat entry point
// in a binary built with -race, scheduler off, yield points turned into
// unsynchronised random Gosched calls, real GOMAXPROCS 1/4/16. This is
// runtime monitoring of uncontrolled executions (its interleavings do not
// replay; its inputs and seeds do) and is reported separately in evidence.

import (
	"bytes"
	"encoding/json"
	"fmt"
	"os"
	"path/filepath"
	"runtime"
	"strings"
	"testing"
	"time"

	sim "verif.local/sim"
)

type c15RaceJob struct {
	Seed    uint64  `json:"seed"`
	Worker  int     `json:"worker"`
	N       int     `json:"nworkers"`
	BudgetS float64 `json:"budget_s"`
	Out     string  `json:"out"`
	Current string  `json:"current"` // file that always holds the input being executed
	Replay  *c15RaceInput `json:"replay"`
	Repeat  int     `json:"repeat"`
}

type c15RaceInput struct {
	Files map[string]string `json:"files"`
	Args  [][]string        `json:"args"`
	Seed  uint64            `json:"seed"`
	Index uint64            `json:"index"`
}

type c15RaceResult struct {
	Episodes   int            `json:"episodes"`
	Executions int            `json:"executions"`
	Gomaxprocs map[string]int `json:"gomaxprocs"`
	Mismatch   string         `json:"mismatch"`
	Input      *c15RaceInput  `json:"input"`
}

func c15PlainRun(args []string) c15Out {
	var o c15Out
	var stdout, stderr bytes.Buffer
	func() {
		defer func() {
			if p := recover(); p != nil {
				o.Panic = fmt.Sprint(p)
			}
		}()
		if err := benchstat(&stdout, &stderr, args); err != nil {
			o.Err = err.Error()
		}
	}()
	o.Stdout, o.Stderr = stdout.String(), stderr.String()
	return o
}

func c15RaceEpisode(in *c15RaceInput, res *c15RaceResult, reps int) bool {
	for name, txt := range in.Files {
		os.MkdirAll(filepath.Dir(filepath.Join(c15Dir, name)), 0o755)
		os.WriteFile(filepath.Join(c15Dir, name), []byte(txt), 0o644)
	}
	for _, a := range in.Args {
		var ref *c15Out
		for rep := 0; rep < reps; rep++ {
			gmp := []int{4, 1, 16, 2}[rep%4]
			runtime.GOMAXPROCS(gmp)
			o := c15PlainRun(a)
			res.Executions++
			res.Gomaxprocs[fmt.Sprint(gmp)]++
			if ref == nil {
				ref = &o
			} else if !o.same(*ref) {
				res.Mismatch = fmt.Sprintf("benchstat %q gave different output on repetition %d (GOMAXPROCS=%d):\n--- first\n%s%s--- now\n%s%s", a, rep, gmp, clip(ref.Stdout), clip(ref.Stderr), clip(o.Stdout), clip(o.Stderr))
				res.Input = in
				return false
			}
		}
	}
	res.Episodes++
	return true
}

func c15RaceWorker(t *testing.T, jobPath string) {
	b, err := os.ReadFile(jobPath)
	var job c15RaceJob
	if err != nil || json.Unmarshal(b, &job) != nil {
		fmt.Println("VERIF-INFRA: bad race job")
		os.Exit(2)
	}
	sim.RaceMode = true
	res := &c15RaceResult{Gomaxprocs: map[string]int{}}
	defer func() {
		ob, _ := json.Marshal(res)
		os.WriteFile(job.Out, ob, 0o644)
	}()
	if job.Replay != nil {
		reps := job.Repeat
		if reps <= 0 {
			reps = 50
		}
		c15RaceEpisode(job.Replay, res, reps)
		return
	}
	start := time.Now()
	for k := uint64(job.Worker); time.Since(start).Seconds() < job.BudgetS; k += uint64(job.N) {
		T := sim.NewTape(sim.Mix(job.Seed, "C15-race", k))
		in := &c15RaceInput{Files: map[string]string{}, Seed: job.Seed, Index: k}
		if T.Intn(3, "source") == 0 {
			base := sim.Pick(T, c15TestdataArgs, "tdargs")
			for i := 0; i < 2; i++ {
				a := []string{"-confidence", sim.Pick(T, c15Conf, "conf"), "-format", []string{"text", "csv"}[T.Intn(2, "format")]}
				in.Args = append(in.Args, append(a, base...))
			}
		} else {
			var inputs []string
			for _, f := range c15GenFiles(T) {
				in.Files[f.name] = f.text(nil)
				inputs = append(inputs, f.name)
			}
			for i := 0; i < 2; i++ {
				in.Args = append(in.Args, c15GenArgs(T, []string{"text", "csv"}[T.Intn(2, "format")], sim.Pick(T, c15Conf, "conf"), inputs))
			}
		}
		cb, _ := json.Marshal(in)
		os.WriteFile(job.Current, cb, 0o644)
		if !c15RaceEpisode(in, res, 4) {
			return
		}
	}
}

var _ = strings.Join

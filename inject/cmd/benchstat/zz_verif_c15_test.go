//go:build verif

package main

// C15 — benchstat output depends only on its inputs, under every schedule
// (schedsim). Injected by /verif/check; never committed to /repo.

import (
	"bytes"
	"encoding/csv"
	"encoding/json"
	"fmt"
	"io"
	"math"
	"os"
	"os/exec"
	"path/filepath"
	"sort"
	"strconv"
	"strings"
	"testing"
	"time"

	"golang.org/x/perf/benchproc"
	sim "verif.local/sim"
)

type c15Out struct {
	Stdout string `json:"stdout"`
	Stderr string `json:"stderr"`
	Err    string `json:"err"`
	Panic  string `json:"panic"`
	Steps  int    `json:"steps"`
}

func (o c15Out) same(p c15Out) bool {
	return o.Stdout == p.Stdout && o.Stderr == p.Stderr && o.Err == p.Err && o.Panic == p.Panic
}

func keyCanon(k benchproc.Key) (s string) {
	defer func() {
		if recover() != nil {
			s = ""
		}
	}()
	if k.IsZero() {
		return "<zero>"
	}
	// public API only, and nothing that fills a cache of the projection (FlattenedFields and Key.String do)
	var b strings.Builder
	var walk func(fs []*benchproc.Field)
	walk = func(fs []*benchproc.Field) {
		for _, f := range fs {
			if f.IsTuple {
				walk(f.Sub)
				continue
			}
			if v := k.Get(f); v != "" {
				fmt.Fprintf(&b, "%q=%q,", f.Name, v)
			}
		}
	}
	walk(k.Projection().Fields())
	return b.String()
}

func init() {
	sim.RegisterCanon(keyCanon)
}

// c15RunSim executes benchstat once as task "main" under the scheduler.
func c15RunSim(t *testing.T, r *sim.Run, args []string, gmp int) c15Out {
	var out c15Out
	var stdout, stderr bytes.Buffer
	r.SimProcs = gmp
	defer func() { r.SimProcs = 0 }()
	before := r.Steps
	skew := c15ClockSkew
	r.Bubble(t, 400000, func(s *sim.Sched) {
		if skew > 0 {
			time.Sleep(skew) // nothing else runs yet: the bubble's clock jumps
		}
		s.Go("main", 0, func() {
			defer func() {
				if p := recover(); p != nil {
					out.Panic = fmt.Sprint(p)
				}
			}()
			var w io.Writer = &stdout
			if c15FailAfter >= 0 {
				w = &c15FailingWriter{w: &stdout, left: c15FailAfter}
			}
			if err := benchstat(w, &stderr, args); err != nil {
				out.Err = err.Error()
			}
		})
		s.Loop()
	})
	out.Stdout, out.Stderr = stdout.String(), stderr.String()
	out.Steps = r.Steps - before
	return out
}

var c15ClockSkew time.Duration // simulated time that has passed when the next execution starts
var c15FailAfter = -1          // >= 0: stdout of the next execution accepts this many bytes, then fails

type c15FailingWriter struct {
	w    io.Writer
	left int
}

func (f *c15FailingWriter) Write(p []byte) (int, error) {
	if len(p) <= f.left {
		f.left -= len(p)
		return f.w.Write(p)
	}
	n, _ := f.w.Write(p[:f.left])
	f.left = 0
	return n, fmt.Errorf("verifsim: output closed")
}

var (
	c15Dir      string
	c15RefCache = map[string]c15Out{}
	c15Testdata []string
)

type c15RefReq struct {
	Dir  string   `json:"dir"`
	Args []string `json:"args"`
	Out  string   `json:"out"`
}

// c15Ref computes the reference output in a fresh child process (cold
// process-wide caches), sequential schedule, identity map order, GOMAXPROCS 4.
func c15Ref(r *sim.Run, args []string, contentKey string) c15Out {
	key := contentKey + "\x00" + strings.Join(args, "\x00")
	if o, ok := c15RefCache[key]; ok {
		return o
	}
	req := c15RefReq{Dir: c15Dir, Args: args, Out: filepath.Join(c15Dir, "ref-out.json")}
	b, _ := json.Marshal(req)
	reqPath := filepath.Join(c15Dir, "ref-req.json")
	os.WriteFile(reqPath, b, 0o644)
	os.Remove(req.Out)
	cmd := exec.Command(os.Args[0], "-test.run", "^TestVerifWorker$", "-test.timeout", "0")
	cmd.Env = append(os.Environ(), "VERIF_C15_REF="+reqPath, "GOMAXPROCS=2")
	cmd.Dir = c15Dir
	if outb, err := cmd.CombinedOutput(); err != nil {
		fmt.Printf("VERIF-INFRA: reference child failed: %v\n%s\n", err, outb)
		os.Exit(2)
	}
	var o c15Out
	ob, err := os.ReadFile(req.Out)
	if err != nil || json.Unmarshal(ob, &o) != nil {
		fmt.Printf("VERIF-INFRA: reference child wrote no result: %v\n", err)
		os.Exit(2)
	}
	if len(c15RefCache) > 2000 {
		c15RefCache = map[string]c15Out{}
	}
	c15RefCache[key] = o
	r.Hit("reference computed in a cold child process")
	return o
}

func c15RefChild(t *testing.T, reqPath string) {
	b, err := os.ReadFile(reqPath)
	var req c15RefReq
	if err != nil || json.Unmarshal(b, &req) != nil {
		fmt.Println("bad ref request")
		os.Exit(2)
	}
	if err := os.Chdir(req.Dir); err != nil {
		fmt.Println(err)
		os.Exit(2)
	}
	var o c15Out
	sim.ExecOnce("C15", nil, func(r *sim.Run) {
		r.OwnMapOrder(true)
		o = c15RunSim(t, r, req.Args, 4)
	})
	ob, _ := json.Marshal(o)
	os.WriteFile(req.Out, ob, 0o644)
}

// ---- input generation ----

type c15Block struct {
	cfg   []string // config lines
	lines []string // benchmark lines
}

type c15File struct {
	name   string
	header []string // Unit lines
	blocks []c15Block
}

func (f *c15File) text(perm func(n int) []int) string {
	var b strings.Builder
	for _, h := range f.header {
		b.WriteString(h + "\n")
	}
	for _, bl := range f.blocks {
		for _, c := range bl.cfg {
			b.WriteString(c + "\n")
		}
		b.WriteString("\n")
		idx := make([]int, len(bl.lines))
		for i := range idx {
			idx[i] = i
		}
		if perm != nil {
			idx = perm(len(bl.lines))
		}
		for _, i := range idx {
			b.WriteString(bl.lines[i] + "\n")
		}
		b.WriteString("\n")
	}
	return b.String()
}

var c15BenchNames = []string{"Encode", "Decode", "Sort/size=1", "Sort/size=10", "Sort/size=100", "Sort/size=1Ki", "Sort/size=1010", "Sort/size=8Ki", "Sort/size=8100", "Sort/size=1k", "Hash/size=1/align=0", "Hash/size=1/align=1", "Hash/size=10/align=0", "Walk", "Fib-8", "Fib-16", "Sort/size=1-8", "Sort/size=20.1.1", "Sort/size=3", "Sort/size=20", "Sort/size=v2", "Pair/a=1/b=23", "Pair/a=12/b=3", "Wide/a=AAAAAAAAAAAAAAAAAAAAAAAAAAAAAAAAAAAAAAAAAAAAAAAAAAAAAAAAAAAA/b=x", "Wide/a=y/b=BBBBBBBBBBBBBBBBBBBBBBBBBBBBBBBBBBBBBBBB", "Wide/a=AAAAAAAAAAAAAAAAAAAAAAAAAAAAAAAAAAAAAAAAAAAAAAAAAAAAAAAAAAAA/b=BBBBBBBBBBBBBBBBBBBBBBBBBBBBBBBBBBBBBBBB", "Pair/a=1k/b=1000", "Pair/a=1000/b=1k", "Pair/a=1k/b=1k", "Pair/a=1e3/b=1000", "Pair/a=2/b=1Ki", "Pair/a=2/b=1024"}
var c15Families = [][]string{
	{"Sort/size=20.1.1", "Sort/size=3", "Sort/size=20", "Sort/size=v2", "Sort/size=100"}, // numbers next to words with digits
	{"Pair/a=1k/b=1000", "Pair/a=1000/b=1k", "Pair/a=1k/b=1k", "Pair/a=1e3/b=1000"},     // equal numbers, different spellings
	{"Pair/a=1/b=23", "Pair/a=12/b=3", "Pair/a=1/b=2", "Pair/a=12/b=23"},                 // values that run together
}

var c15Units = []string{"ns/op", "B/op", "allocs/op", "MB/s", "widgets", "ns/frob", "ns/MB", "sec/MB", "MB/ns", "B/ns", "sec/op", "B/s"}

// c15NaNRun: the generated input holds NaN measurements. Only single-column runs get them: comparing two samples
// that contain NaN never returns (the U-test of the external go-moremath package spins on NaN ranks; recorded in
// DESIGN.md, outside the claimed properties), which would hang the worker instead of telling anything about C15.
var c15NaNRun bool

func c15GenFiles(T *sim.Tape) []*c15File {
	nf := 1 + T.Intn(3, "nfiles")
	c15NaNRun = nf == 1 && T.Intn(2, "nan-run") == 0
	nb := 1 + T.Intn(6, "nbench")
	names := make([]string, nb)
	for i := range names {
		names[i] = sim.Pick(T, c15BenchNames, "bname")
	}
	if fam := T.Intn(10, "name-family"); fam < len(c15Families) {
		// one run in ten per family: names that only matter together
		names = append([]string(nil), c15Families[fam]...)
	}
	nunits := 1 + T.Intn(3, "nunits")
	units := make([]string, nunits)
	for i := range units {
		units[i] = c15Units[(T.Intn(len(c15Units), "unit")+i)%len(c15Units)]
	}
	exact := T.Intn(4, "exact") == 0
	respell := T.Intn(4, "respell-units") == 0 // some lines give a unit in its rescaled spelling
	var files []*c15File
	for fi := 0; fi < nf; fi++ {
		f := &c15File{name: fmt.Sprintf("g%d.txt", fi)}
		if exact && (fi == 0 || T.Bool("exact-in-this-file")) {
			// unit metadata may be declared in some input files only: runs over different file subsets then
			// disagree about the unit's assumption
			f.header = append(f.header, "Unit "+units[len(units)-1]+" assume=exact")
		}
		if T.Intn(6, "better") == 0 {
			f.header = append(f.header, "Unit "+units[0]+" better=higher")
		}
		nblocks := 1 + T.Intn(3, "nblocks")
		for bi := 0; bi < nblocks; bi++ {
			var bl c15Block
			bl.cfg = append(bl.cfg, "goos: linux", "pkg: example.com/p"+strconv.Itoa(T.Intn(2, "pkg")))
			if T.Bool("note") {
				bl.cfg = append(bl.cfg, "note: "+[]string{"base", "opt", "opt2"}[T.Intn(3, "notev")])
			}
			if T.Intn(4, "goarch") == 0 {
				bl.cfg = append(bl.cfg, "goarch: "+[]string{"amd64", "arm64"}[T.Intn(2, "archv")])
			}
			if T.Intn(8, "malformed-line") == 0 {
				// a malformed line: reported on stderr with its position, the run continues (kept out of the permuted part)
				bl.cfg = append(bl.cfg, []string{"BenchmarkBroken 1 x ns/op", "BenchmarkNoUnit 10 5", "Unit ns/op novalue", "BenchmarkIters many 5 ns/op"}[T.Intn(4, "malformed-kind")])
			}
			nsamp := 1 + T.Intn(12, "nsamples")
			for _, n := range names {
				if T.Intn(6, "missing") == 0 {
					continue // missing cell
				}
				base := float64(1+T.Intn(1000, "base")) * math.Pow(10, float64(T.Intn(6, "mag")-2))
				ns := nsamp
				if T.Intn(4, "uneven") == 0 {
					ns = 1 + T.Intn(12, "nsamples2")
				}
				for s := 0; s < ns; s++ {
					var l strings.Builder
					fmt.Fprintf(&l, "Benchmark%s %d", n, 1+T.Intn(100000, "iters"))
					for ui, u := range units {
						v := base * (1 + float64(T.Intn(200, "noise")-100)/1000) * float64(ui+1)
						if exact && ui == len(units)-1 {
							v = float64(int(base)%7 + T.Intn(2, "exactvar")*T.Intn(2, "exactvar2"))
						}
						switch T.Intn(60, "odd") {
						case 2, 3, 4:
							if c15NaNRun {
								v = math.NaN() // a failed measurement; where it stands among the lines must not matter
							}
						case 0:
							v = 0
						case 1:
							if v != 0 {
								v = -v // never negative zero: 0 and -0 tie in every sort, so which one is the median is not prescribed
							}
						}
						if respell && T.Bool("respell-this-line") {
							// the same quantity written in the unit's other spelling: ns/op as sec/op, MB/s as B/s
							switch u {
							case "ns/op":
								u, v = "sec/op", v*1e-9
							case "MB/s":
								u, v = "B/s", v*1e6
							}
						}
						fmt.Fprintf(&l, " %v %s", strconv.FormatFloat(v, 'g', 6, 64), u)
					}
					bl.lines = append(bl.lines, l.String())
				}
			}
			f.blocks = append(f.blocks, bl)
		}
		files = append(files, f)
	}
	return files
}

var c15Flags = [][][]string{
	{{}, {}, {"-col", "note"}, {"-col", ".file,note"}, {"-col", "goarch"}, {"-col", "note@alpha"}, {"-col", "note@(opt base opt2)"}, {"-col", "/a@num"}, {"-col", "/a@alpha,/b@alpha"}, {"-col", ".file,/a@alpha,/b@alpha"}},
	{{}, {}, {"-row", ".name"}, {"-row", "/size"}, {"-row", ".name,/size"}, {"-row", ".fullname@alpha"}, {"-row", "/size@num"}, {"-row", "/a@num,/b@num"}, {"-row", "/a,/b"}, {"-row", ".name,/b@num,/a@num"}},
	{{}, {}, {"-table", "pkg"}, {"-table", "goos"}, {"-table", ".config@alpha"}},
	{{}, {}, {}, {"-ignore", "note"}, {"-ignore", "pkg"}, {"-ignore", "/size"}, {"-ignore", "goarch,note"}},
	{{}, {}, {}, {"-filter", "/size:1"}, {"-filter", ".unit:ns/op"}, {"-filter", "-/align:1"}, {"-filter", ".name:Sort OR .name:Hash"}, {"-filter", ".unit:(B/op OR allocs/op)"}},
	{{}, {}, {"-alpha", "0.01"}, {"-alpha", "0.5"}, {"-alpha", "1"}},
}
var c15Conf = []string{"0.95", "0.99", "0.999", "0.9", "0.5", "0.995", "0.991"}

func c15GenArgs(T *sim.Tape, format string, conf string, inputs []string) []string {
	var a []string
	for gi, g := range c15Flags {
		f := sim.Pick(T, g, "flag")
		if gi == 0 && c15NaNRun {
			f = nil // no -col: one input file, one column, no comparison
		}
		a = append(a, f...)
	}
	a = append(a, "-confidence", conf, "-format", format)
	return append(a, inputs...)
}

var c15TestdataArgs = [][]string{
	{"old.txt", "new.txt"}, {"-row", ".name", "new.txt"}, {"crc-old.txt", "crc-new.txt"}, {"-ignore", "note", "crc-old.txt", "crc-new.txt"},
	{"-filter", "/align:0", "-row", "/size", "-col", "/poly", "crc-new.txt"}, {"-col", "note", "units.txt"}, {"-col", "note", "zero.txt"},
	{"-col", "note", "smallSample.txt"}, {"-col", "note", "issue19565.txt"}, {"-col", "note", "issue19634.txt"},
	{"-col", "/poly", "-row", "/size,/align", "crc-old.txt", "crc-new.txt"}, {"old.txt", "old.txt", "new.txt"}, {"A=old.txt", "B=new.txt", "C=old.txt"},
}

// ---- csv comparison for the permutation relation ----

type c15Table struct {
	header string              // everything up to and including the unit row
	rows   map[string][]string // row label -> cells
	geo    []string
}

func c15ParseCSV(s string) ([]c15Table, error) {
	var tables []c15Table
	running := map[string]string{} // table key fields are printed only when they change
	for _, chunk := range strings.Split(s, "\n\n") {
		if strings.TrimSpace(chunk) == "" {
			continue
		}
		lines := strings.Split(strings.TrimRight(chunk, "\n"), "\n")
		i := 0
		for i < len(lines) && !strings.HasPrefix(lines[i], ",") {
			if k, v, ok := strings.Cut(lines[i], ": "); ok {
				running[k] = v
			} else {
				running[strings.TrimSuffix(lines[i], ":")] = "" // "key:" (or "key: " above): not set in this table
			}
			i++
		}
		var ks []string
		for k := range running {
			ks = append(ks, k)
		}
		sort.Strings(ks)
		var hdr []string
		for _, k := range ks {
			if running[k] != "" { // a key without value is as good as an absent one
				hdr = append(hdr, k+": "+running[k])
			}
		}
		rd := csv.NewReader(strings.NewReader(strings.Join(lines[i:], "\n")))
		rd.FieldsPerRecord = -1
		recs, err := rd.ReadAll()
		if err != nil {
			return nil, err
		}
		t := c15Table{rows: map[string][]string{}}
		j := 0
		for j < len(recs) {
			hdr = append(hdr, strings.Join(recs[j], ","))
			j++
			if rec := recs[j-1]; len(rec) > 2 && rec[0] == "" && rec[2] == "CI" {
				break // the unit row ends the header
			}
		}
		t.header = strings.Join(hdr, "\n")
		for ; j < len(recs); j++ {
			if j == len(recs)-1 {
				t.geo = recs[j] // summary row
				continue
			}
			t.rows[recs[j][0]] = recs[j][1:]
		}
		tables = append(tables, t)
	}
	return tables, nil
}

func c15SameCells(a, b []string, tol bool) bool {
	if len(a) != len(b) {
		return false
	}
	for i := range a {
		if a[i] == b[i] {
			continue
		}
		if !tol {
			return false
		}
		x, e1 := strconv.ParseFloat(strings.TrimSuffix(a[i], "%"), 64)
		y, e2 := strconv.ParseFloat(strings.TrimSuffix(b[i], "%"), 64)
		if e1 != nil || e2 != nil || math.Abs(x-y) > 1e-9*math.Max(math.Abs(x), math.Abs(y))+1e-9*boolf(strings.HasSuffix(a[i], "%")) {
			return false
		}
	}
	return true
}

func boolf(b bool) float64 {
	if b {
		return 1e7 // percentages are printed with two decimals; allow last-digit rounding
	}
	return 0
}

func c15StripRefs(stderr string) []string {
	var out []string
	for _, l := range strings.Split(stderr, "\n") {
		if l == "" {
			continue
		}
		if i := strings.Index(l, ": "); i > 0 && i < 8 {
			l = l[i+2:]
		}
		out = append(out, l)
	}
	sort.Strings(out)
	return out
}

func c15Episode(t *testing.T, r *sim.Run, tier string) {
	T := r.T
	r.OwnMapOrder(true)
	var inputs []string
	var files []*c15File
	contentKey := "testdata"
	useTestdata := T.Intn(3, "source") == 0
	var argsets [][]string
	var nIn []int // number of input arguments at the end of each argument set
	nsets := 2 + T.Intn(2, "nargsets")
	if useTestdata {
		base := sim.Pick(T, c15TestdataArgs, "tdargs")
		for i := 0; i < nsets; i++ {
			a := []string{"-confidence", sim.Pick(T, c15Conf, "conf"), "-format", []string{"text", "csv"}[T.Intn(2, "format")]}
			if T.Intn(3, "alpha") == 0 {
				a = append(a, "-alpha", []string{"0.01", "0.5"}[T.Intn(2, "alphav")])
			}
			argsets = append(argsets, append(a, base...))
		}
	} else {
		files = c15GenFiles(T)
		var all strings.Builder
		os.MkdirAll(filepath.Join(c15Dir, "perm"), 0o755)
		for _, f := range files {
			txt := f.text(nil)
			all.WriteString(f.name + "\n" + txt)
			if err := os.WriteFile(filepath.Join(c15Dir, f.name), []byte(txt), 0o644); err != nil {
				panic(err)
			}
			r.Logf("file %s:\n%s", f.name, txt)
			switch T.Intn(5, "inputform") {
			case 0:
				inputs = append(inputs, fmt.Sprintf("L%d=%s", len(inputs), f.name))
			default:
				inputs = append(inputs, f.name)
			}
		}
		if T.Intn(5, "dup") == 0 && !c15NaNRun {
			inputs = append(inputs, files[0].name) // duplicate path
		}
		contentKey = fmt.Sprintf("%x", sim.HashStr(all.String()))
		var shared [][]string
		for _, g := range c15Flags {
			shared = append(shared, sim.Pick(T, g, "flag"))
		}
		if c15NaNRun {
			shared[0] = nil // one column only (see c15NaNRun)
		}
		for i := 0; i < nsets; i++ {
			var a []string
			for gi, g := range c15Flags {
				if T.Intn(4, "varyflag") == 0 {
					if f := sim.Pick(T, g, "flag"); !(gi == 0 && c15NaNRun) {
						a = append(a, f...)
					}
				} else {
					a = append(a, shared[gi]...)
				}
			}
			a = append(a, "-confidence", sim.Pick(T, c15Conf, "conf"), "-format", []string{"text", "csv"}[T.Intn(2, "format")])
			ins := inputs
			if i > 0 && len(inputs) > 1 && T.Intn(3, "input-subset") == 0 {
				// a later argument set over a subset of the files (in a drawn rotation): in one process, runs over
				// different inputs follow each other
				rot := T.Intn(len(inputs), "subset-rot")
				ins = append(append([]string(nil), inputs[rot:]...), inputs[:rot]...)[:1+T.Intn(len(inputs)-1, "subset-n")]
			}
			argsets = append(argsets, append(a, ins...))
			nIn = append(nIn, len(ins))
		}
	}
	refs := make([]c15Out, len(argsets))
	for i, a := range argsets {
		refs[i] = c15Ref(r, a, contentKey)
		r.Logf("argset %d: %q -> ref stdout %x stderr %x err %q (%d steps)", i, a, sim.HashStr(refs[i].Stdout), sim.HashStr(refs[i].Stderr), refs[i].Err, refs[i].Steps)
		if refs[i].Panic != "" {
			r.Fail("panic", "benchstat-panics-in-reference", "benchstat %q panicked in the sequential reference run: %s", a, refs[i].Panic)
		}
	}
	n := 4 + T.Intn(8, "nexec")
	if tier == "thorough" {
		n = 8 + T.Intn(32, "nexec")
	}
	for e := 0; e < n; e++ {
		ai := T.Intn(len(argsets), "which-argset")
		gmp := []int{4, 1, 2, 16}[T.Intn(4, "gomaxprocs")]
		// "arguments and file contents alone": the wall clock and the environment are not among them
		c15ClockSkew = []time.Duration{0, 0, time.Second, 90 * time.Minute, 36 * time.Hour, 400 * 24 * time.Hour}[T.Intn(6, "clock")]
		envk := []string{"", "", "COLUMNS", "LANG", "NO_COLOR", "TERM", "HOME", "GODEBUG"}[T.Intn(8, "env")]
		envOld, envHad := "", false
		if envk != "" {
			envOld, envHad = os.LookupEnv(envk)
			os.Setenv(envk, map[string]string{"COLUMNS": "37", "LANG": "tr_TR.UTF-8", "NO_COLOR": "1", "TERM": "dumb", "HOME": "/nonexistent", "GODEBUG": "randautoseed=0"}[envk])
		}
		if T.Intn(10, "failed-run-first") == 0 {
			// an earlier run in this process whose output could not be written (closed pipe, full disk): whatever it
			// left behind must not show in later output
			c15FailAfter = T.Intn(len(refs[ai].Stdout)+1, "fail-after")
			bad := c15RunSim(t, r, argsets[ai], gmp)
			c15FailAfter = -1
			r.Logf("exec %d: preceded by a run whose stdout failed after %d bytes (err %q)", e, len(bad.Stdout), bad.Err)
			r.Hit("execution preceded by a run with a failing output writer")
			if r.Failed() {
				return
			}
		}
		got := c15RunSim(t, r, argsets[ai], gmp)
		c15ClockSkew = 0
		if envk != "" {
			if envHad {
				os.Setenv(envk, envOld)
			} else {
				os.Unsetenv(envk)
			}
		}
		r.Logf("exec %d: argset %d GOMAXPROCS=%d strategy=%s steps=%d stdout %x stderr %x err %q", e, ai, gmp, r.Info["strategy"], got.Steps, sim.HashStr(got.Stdout), sim.HashStr(got.Stderr), got.Err)
		if r.Failed() {
			return
		}
		if !got.same(refs[ai]) {
			sig := "stdout-differs"
			switch {
			case got.Panic != refs[ai].Panic:
				sig = "panic-under-schedule"
			case got.Err != refs[ai].Err:
				sig = "error-differs"
			case got.Stdout == refs[ai].Stdout:
				sig = "stderr-differs"
			}
			r.Fail("output-determinism", sig, "benchstat %q (GOMAXPROCS=%d, strategy %s, execution %d of the episode) differs from the cold sequential reference\n--- reference stdout\n%s--- got stdout\n%s--- reference stderr\n%s--- got stderr\n%s--- err ref=%q got=%q panic=%q",
				argsets[ai], gmp, r.Info["strategy"], e, clip(refs[ai].Stdout), clip(got.Stdout), clip(refs[ai].Stderr), clip(got.Stderr), refs[ai].Err, got.Err, got.Panic)
		}
		if gmp == 1 {
			r.Hit("GOMAXPROCS=1 (limit semaphore of 2)")
		}
	}
	// permutation relation on generated inputs
	if !useTestdata {
		for ai, a := range argsets {
			if !contains(a, "csv") || refs[ai].Err != "" {
				continue
			}
			for _, f := range files {
				txt := f.text(func(n int) []int { return T.Perm(n, "lineperm") })
				os.WriteFile(filepath.Join(c15Dir, "perm", f.name), []byte(txt), 0o644)
			}
			pa := append([]string(nil), a...)
			li := 0
			for i := len(pa) - nIn[ai]; i < len(pa); i++ {
				name := pa[i]
				label := name
				if j := strings.Index(name, "="); j >= 0 {
					label, name = name[:j], name[j+1:]
				}
				// keep the column label, read the permuted copy
				pa[i] = label + "=" + filepath.Join("perm", name)
				li++
			}
			// the unpermuted run with the same explicit labels is the baseline for this relation
			ba := append([]string(nil), a...)
			for i := len(ba) - nIn[ai]; i < len(ba); i++ {
				if !strings.Contains(ba[i], "=") {
					ba[i] = ba[i] + "=" + ba[i]
				}
			}
			base := c15RunSim(t, r, ba, 4)
			perm := c15RunSim(t, r, pa, 4)
			if r.Failed() {
				return
			}
			c15ComparePerm(r, ba, base, perm)
			r.Hit("line-permutation relation checked")
			break
		}
	}
	r.StateHash = sim.HashStr(refs[0].Stdout, refs[0].Stderr)
	r.Nontrivial = r.Steps > 50
}

func contains(a []string, s string) bool {
	for _, x := range a {
		if x == s {
			return true
		}
	}
	return false
}

func clip(s string) string {
	if len(s) > 1200 {
		return s[:1200] + "…\n"
	}
	return s
}

func c15ComparePerm(r *sim.Run, args []string, base, perm c15Out) {
	if base.Err != perm.Err || base.Panic != perm.Panic {
		r.Fail("line-permutation", "error-differs", "benchstat %q: err %q/%q panic %q/%q after permuting lines within blocks", args, base.Err, perm.Err, base.Panic, perm.Panic)
	}
	bt, e1 := c15ParseCSV(base.Stdout)
	pt, e2 := c15ParseCSV(perm.Stdout)
	if e1 != nil || e2 != nil {
		r.Fail("line-permutation", "csv-unparseable", "csv output does not parse: %v %v\n%s", e1, e2, clip(base.Stdout))
	}
	if len(bt) != len(pt) {
		r.Fail("line-permutation", "table-count-differs", "benchstat %q: %d tables, %d after permuting lines within blocks\n%s\n---\n%s", args, len(bt), len(pt), clip(base.Stdout), clip(perm.Stdout))
	}
	ptByHdr := map[string]c15Table{}
	for _, t := range pt {
		ptByHdr[t.header] = t
	}
	for i := range bt {
		p, ok := ptByHdr[bt[i].header]
		if !ok {
			r.Fail("line-permutation", "table-missing", "benchstat %q: table %d with header\n%s\nhas no counterpart after permuting lines within blocks; permuted output:\n%s", args, i, bt[i].header, clip(perm.Stdout))
		}
		if len(bt[i].rows) != len(p.rows) {
			r.Fail("line-permutation", "row-set-differs", "benchstat %q: table %d has %d rows, %d after permuting lines", args, i, len(bt[i].rows), len(p.rows))
		}
		for label, cells := range bt[i].rows {
			pc, ok := p.rows[label]
			if !ok || !c15SameCells(cells, pc, false) {
				r.Fail("line-permutation", "cell-content-differs", "benchstat %q: table %d row %q: %q became %q after permuting lines within blocks", args, i, label, cells, pc)
			}
		}
		if !c15SameCells(bt[i].geo, p.geo, true) {
			r.Fail("line-permutation", "geomean-differs", "benchstat %q: table %d geomean %q became %q after permuting lines", args, i, bt[i].geo, p.geo)
		}
	}
	// positioned syntax errors name the input file: the permuted copies live in perm/
	bw, pw := c15StripRefs(base.Stderr), c15StripRefs(strings.ReplaceAll(perm.Stderr, "perm/", ""))
	if strings.Join(bw, "\n") != strings.Join(pw, "\n") {
		r.Fail("line-permutation", "warnings-differ", "benchstat %q: warnings differ after permuting lines:\n%s\n---\n%s", args, strings.Join(bw, "\n"), strings.Join(pw, "\n"))
	}
}

var c15Engine = &sim.Engine{
	Prop:  "C15",
	Level: "exploration",
	Rule: "one run = one episode: 2-3 argument sets over one set of input files (repository testdata or generated); per argument set a cold sequential reference in a fresh child process; then 4-40 executions of the real benchstat entry point in-process under a seeded scheduler (every yield point decided from the tape), owned map order, GOMAXPROCS in {1,2,4,16}, caches warmed by the preceding executions, the simulated clock advanced and environment variables changed between executions, now and then preceded by a run whose output writer fails; outputs must be byte-identical; plus the line-permutation relation on csv output; " +
		"non-trivial = more than 50 scheduler steps; distinct = distinct (schedule hash, reference output hash)",
	Assumptions: []string{
		"yield points are those inserted by the instrumenter (go statements, channel operations, sync/atomic method calls, sync.Once.Do, writes to fields/package variables in worker goroutines, every statement of goroutine bodies); interleavings inside un-instrumented packages (internal/stats, sort) are not explored",
		"the line-permutation relation compares csv cells exactly, geomean cells to 1e-9 relative, warnings as a multiset without cell references",
	},
	Real: []string{"cmd/benchstat benchstat() entry point", "benchtab.Builder/ToTables goroutines, limit semaphore, WaitGroup", "benchmath, benchproc, benchunit, benchfmt (instrumented copies of the current tree)", "process-wide caches (medianCache, tidyCache)", "os file reads of real temporary files"},
	Stub: []string{"goroutine scheduling (seeded scheduler over testing/synctest quiescence)", "hash-map iteration order (verifsim.Map)", "GOMAXPROCS (set per execution)"},
	Run:  func(t *testing.T, r *sim.Run, tier string) { r.Lane = "sched"; c15Episode(t, r, tier) },
}

func TestVerifWorker(t *testing.T) {
	if p := os.Getenv("VERIF_C15_REF"); p != "" {
		c15RefChild(t, p)
		return
	}
	if os.Getenv("VERIF_JOB") == "" && os.Getenv("VERIF_C15_RACE") == "" {
		t.Skip("VERIF_JOB not set")
	}
	// all inputs live in one scratch directory and are named relative to it,
	// so that outputs are identical across processes
	c15Dir = t.TempDir()
	ents, _ := os.ReadDir("testdata")
	for _, e := range ents {
		if strings.HasSuffix(e.Name(), ".txt") {
			b, _ := os.ReadFile(filepath.Join("testdata", e.Name()))
			os.WriteFile(filepath.Join(c15Dir, e.Name()), b, 0o644)
		}
	}
	if err := os.Chdir(c15Dir); err != nil {
		t.Fatal(err)
	}
	if p := os.Getenv("VERIF_C15_RACE"); p != "" {
		c15RaceWorker(t, p)
		return
	}
	sim.WorkerMain(t, c15Engine)
}

//go:build verif

package main

// C01, lane "benchfilter-main": the real cmd/benchfilter main() runs
// in-process over generated input files (os.Args and os.Stdout redirected);
// its output is read back and compared with the stream benchfmt.Files yields
// for the same inputs (file configuration only, values as written).

import (
	"bytes"
	"encoding/json"
	"os/exec"
	"flag"
	"fmt"
	"math"
	"os"
	"path/filepath"
	"sort"
	"strings"
	"testing"

	"golang.org/x/perf/benchfmt"
	"golang.org/x/perf/benchproc"
	sim "verif.local/sim"
)

type fRec struct {
	meta  bool
	name  string
	iters int
	vals  []string
	cfg   map[string]string
	m     [3]string
}

func (r *fRec) String() string {
	if r.meta {
		return fmt.Sprintf("Unit %q %q=%q", r.m[0], r.m[1], r.m[2])
	}
	var ks []string
	for k := range r.cfg {
		ks = append(ks, k)
	}
	sort.Strings(ks)
	var b strings.Builder
	fmt.Fprintf(&b, "Result %q %d %v {", r.name, r.iters, r.vals)
	for _, k := range ks {
		fmt.Fprintf(&b, "%q:%q ", k, r.cfg[k])
	}
	return b.String() + "}"
}

func fModel(rec benchfmt.Record) *fRec {
	switch rec := rec.(type) {
	case *benchfmt.Result:
		m := &fRec{name: string(rec.Name), iters: rec.Iters, cfg: map[string]string{}}
		for _, c := range rec.Config {
			if c.File {
				m.cfg[c.Key] = string(c.Value)
			}
		}
		for _, v := range rec.Values {
			val, unit := v.Value, v.Unit
			if v.OrigUnit != "" {
				val, unit = v.OrigValue, v.OrigUnit
			}
			bits := math.Float64bits(val)
			if val != val {
				bits = 0x7ff8000000000001
			}
			m.vals = append(m.vals, fmt.Sprintf("%x %s", bits, unit))
		}
		return m
	case *benchfmt.UnitMetadata:
		return &fRec{meta: true, m: [3]string{rec.OrigUnit, rec.Key, rec.Value}}
	}
	return nil
}

var fKeys = []string{"goos", "goarch", "pkg", "note", "cpu", "commit"}
var fVals = []string{"linux", "darwin", "amd64", "p/a", "x  y", "v:1", "é", "1", "2"}
var fUnits = []string{"ns/op", "B/op", "MB/s", "widgets", "allocs/op"}
var fNums = []string{"1", "0", "2.5", "1e9", "NaN", "+Inf", "-3", "9223372036854775807", "9.5e18", "123456789", "0.1", "4.9e-324"}

func fGenFile(T *sim.Tape, keys []string) string {
	var b strings.Builder
	n := 1 + T.Small(0, 25, "nlines")
	for i := 0; i < n; i++ {
		switch T.Intn(8, "kind") {
		case 0, 1:
			fmt.Fprintf(&b, "%s: %s\n", sim.Pick(T, keys, "key"), sim.Pick(T, fVals, "val"))
		case 2:
			fmt.Fprintf(&b, "%s:\n", sim.Pick(T, keys, "key"))
		case 3:
			if T.Intn(4, "unitline") == 0 {
				fmt.Fprintf(&b, "Unit %s %s=%s\n", sim.Pick(T, fUnits, "munit"), []string{"better", "assume"}[T.Intn(2, "mkey")], []string{"lower", "higher", "exact"}[T.Intn(3, "mval")])
			} else {
				b.WriteString([]string{"PASS\n", "\n", "ok  \tpkg\t0.1s\n"}[T.Intn(3, "junk")])
			}
		default:
			fmt.Fprintf(&b, "Benchmark%s %d", []string{"X", "Y/size=1", "Z-8", "Foo/a=b/c"}[T.Intn(4, "name")], 1+T.Intn(1000, "iters"))
			for j := 1 + T.Intn(3, "nvals"); j > 0; j-- {
				fmt.Fprintf(&b, " %s %s", sim.Pick(T, fNums, "num"), sim.Pick(T, fUnits, "unit"))
			}
			b.WriteString("\n")
		}
	}
	return b.String()
}

var fTmp string

func fRun(t *testing.T, r *sim.Run, tier string) {
	T := r.T
	r.Lane = "benchfilter-main"
	if fTmp == "" {
		fTmp = t.TempDir()
	}
	nf := 1 + T.Intn(3, "nfiles")
	var args []string
	for i := 0; i < nf; i++ {
		// later files see a different (often smaller) key universe, so keys of an earlier file are absent later
		ks := fKeys
		if T.Bool("narrow-keys") {
			k := 1 + T.Intn(len(fKeys), "nkeys")
			off := T.Intn(len(fKeys), "keyoff")
			ks = nil
			for j := 0; j < k; j++ {
				ks = append(ks, fKeys[(off+j)%len(fKeys)])
			}
		}
		txt := fGenFile(T, ks)
		p := filepath.Join(fTmp, fmt.Sprintf("in%d.txt", i))
		os.WriteFile(p, []byte(txt), 0o644)
		r.Logf("in%d.txt: %q", i, txt)
		if T.Intn(4, "labeled") == 0 {
			args = append(args, fmt.Sprintf("L%d=%s", i, p))
		} else {
			args = append(args, p)
		}
	}
	if T.Intn(5, "dup") == 0 {
		args = append(args, args[0])
	}
	failing := T.Intn(8, "failing-run") == 0
	if failing {
		// a later input cannot be read: benchfilter dies after it has written the records of the earlier inputs
		args = append(args, filepath.Join(fTmp, "missing.txt"))
		r.Fault("input-file-missing")
	}
	// the filter expression: everything, or one that drops whole results or single measurements (what is written is
	// the stream of kept results with their kept measurements)
	fexpr := []string{"*", "*", "*", ".unit:ns/op", "* -.unit:widgets", ".name:X OR .name:Z", "goos:linux", "* -note:1", ".unit:(B/op OR MB/s) -pkg:p/a", "/size:1 OR .name:Foo"}[T.Intn(10, "filter")]
	r.Logf("filter %q", fexpr)
	flt, ferr := benchproc.NewFilter(fexpr)
	if ferr != nil {
		r.Fail("harness", "filter", "%v", ferr)
	}
	// expected stream: what benchfmt.Files yields for these inputs, less what the filter drops
	var want []*fRec
	files := benchfmt.Files{Paths: args, AllowStdin: true, AllowLabels: true}
	for files.Scan() {
		rec := files.Result()
		if res, ok := rec.(*benchfmt.Result); ok {
			if keep, _ := flt.Apply(res); !keep {
				r.Hit("result dropped by the filter")
				continue
			}
		}
		if m := fModel(rec); m != nil {
			want = append(want, m)
		}
	}
	if err := files.Err(); err != nil && !failing {
		r.Fail("harness", "files", "%v", err)
	}
	// run the real main()
	outPath := filepath.Join(fTmp, "out.txt")
	out, err := os.Create(outPath)
	if err != nil {
		panic(err)
	}
	if failing {
		// log.Fatal ends the process: run the tool in a child (this test binary re-executed)
		out.Close()
		cmd := exec.Command(os.Args[0], "-test.run", "^TestVerifWorker$")
		ab, _ := json.Marshal(append([]string{"benchfilter", fexpr}, args...))
		cmd.Env = append(os.Environ(), "VERIF_BENCHFILTER_ARGS="+string(ab))
		var stdout bytes.Buffer
		cmd.Stdout = &stdout
		err := cmd.Run()
		if err == nil {
			r.Fail("roundtrip", "benchfilter/missing-input-ignored", "benchfilter exited 0 although %s does not exist", args[len(args)-1])
		}
		data := stdout.Bytes()
		r.Logf("failing run output %q", strings.ReplaceAll(string(data), fTmp, "$TMP"))
		var got []*fRec
		rd := benchfmt.NewReader(bytes.NewReader(data), "out")
		for rd.Scan() {
			if _, bad := rd.Result().(*benchfmt.SyntaxError); !bad {
				got = append(got, fModel(rd.Result()))
			}
		}
		// a run that fails owes nobody a complete output (it may check its inputs before writing anything); what it
		// did write reads back as a prefix of the stream
		if len(got) > len(want) {
			r.Fail("roundtrip", "benchfilter/extra-record", "the output of a failing run holds %d records, the readable inputs %d", len(got), len(want))
		}
		for i := range got {
			if want[i].String() != got[i].String() {
				r.Fail("roundtrip", "benchfilter/record-differs", "record %d differs in the output of a failing run\nwant: %s\ngot:  %s", i, want[i], got[i])
			}
		}
		r.StateHash = sim.HashStr("failing", fmt.Sprint(len(want)))
		r.Nontrivial = len(want) >= 2
		return
	}
	oldArgs, oldStdout, oldStderr := os.Args, os.Stdout, os.Stderr
	devnull, _ := os.OpenFile(os.DevNull, os.O_WRONLY, 0)
	os.Args = append([]string{"benchfilter", fexpr}, args...)
	os.Stdout, os.Stderr = out, devnull
	flag.CommandLine = flag.NewFlagSet("benchfilter", flag.ExitOnError)
	func() {
		defer func() {
			os.Args, os.Stdout, os.Stderr = oldArgs, oldStdout, oldStderr
			out.Close()
			devnull.Close()
		}()
		main()
	}()
	data, _ := os.ReadFile(outPath)
	r.Logf("output %q", strings.ReplaceAll(string(data), fTmp, "$TMP"))
	var got []*fRec
	rd := benchfmt.NewReader(strings.NewReader(string(data)), "out")
	for rd.Scan() {
		switch rec := rd.Result().(type) {
		case *benchfmt.SyntaxError:
			r.Fail("roundtrip", "benchfilter/syntax-error-on-readback", "reading benchfilter's output produced a syntax error: %v", rec)
		default:
			got = append(got, fModel(rec))
		}
	}
	for i := range want {
		if i >= len(got) {
			r.Fail("roundtrip", "benchfilter/record-lost", "record %d of %d missing from benchfilter's output: %s", i, len(want), want[i])
		}
		if want[i].String() != got[i].String() {
			sig := "benchfilter/record-differs"
			if !want[i].meta && !got[i].meta && want[i].name == got[i].name && fmt.Sprint(want[i].vals) == fmt.Sprint(got[i].vals) {
				sig = "benchfilter/file-config-differs"
			}
			r.Fail("roundtrip", sig, "record %d differs after benchfilter | read-back\nwant: %s\ngot:  %s", i, want[i], got[i])
		}
	}
	if len(got) != len(want) {
		r.Fail("roundtrip", "benchfilter/extra-record", "benchfilter's output has %d records, its input %d", len(got), len(want))
	}
	r.StateHash = sim.HashStr(strings.ReplaceAll(string(data), fTmp, ""))
	r.Nontrivial = len(want) >= 2
}

var c01FilterEngine = &sim.Engine{
	Prop: "C01", Level: "exploration",
	Rule:        "lane benchfilter-main: 1-3 generated input files (keys present in one file and absent in the next, duplicate and labelled paths) through the real cmd/benchfilter main() in-process under one of ten filter expressions (match-all, or dropping whole results or single measurements); the output is read back and compared record by record with what benchfmt.Files yields for the inputs",
	Real:        []string{"cmd/benchfilter main()", "benchfmt.Files", "benchfmt.Writer", "benchfmt.Reader", "benchproc.Filter"},
	Stub:        []string{"os.Args / os.Stdout redirection"},
	Run:         fRun,
}

func TestVerifWorker(t *testing.T) {
	if a := os.Getenv("VERIF_BENCHFILTER_ARGS"); a != "" {
		var args []string
		json.Unmarshal([]byte(a), &args)
		os.Args = args
		flag.CommandLine = flag.NewFlagSet("benchfilter", flag.ExitOnError)
		main()
		os.Exit(0)
	}
	sim.WorkerMain(t, c01FilterEngine)
}

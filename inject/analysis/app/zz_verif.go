//go:build verif

package app

// Re-exports of the front end's query builder for the C19 harness.
func VerifAddToQuery(query, add string) string { return addToQuery(query, add) }

func VerifParseQueryString(q string) (string, []string) { return parseQueryString(q) }

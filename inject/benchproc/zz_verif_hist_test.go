//go:build verif

package benchproc

// histsim — C08 (key identity, projections + residue lossless) and C09 (key
// order). No threads, clock or I/O exist here; what the simulator owns is the
// operation history on shared ProjectionParser/Projection objects: the order
// of Parse calls and the stream of results over a growing key universe.
// Only the public API is used by the oracle.

import (
	"fmt"
	"math"
	"sort"
	"strconv"
	"strings"
	"testing"
	"unicode/utf8"

	"golang.org/x/perf/benchfmt"
	sim "verif.local/sim"
)

// ---- model of a projection expression ----

type hField struct {
	key   string   // ".name", ".fullname", ".config", "/k", or a file key
	order string   // first, alpha, num, fixed
	fixed []string // for fixed
}

type hExpr struct {
	fields []hField
	text   string
	unit   bool // parsed with ParseWithUnit
}

type hResult struct {
	internal map[string]bool // keys of cfg that are tool-internal (File == false)
	name     string
	cfg      [][2]string // configuration in Config order (file unless listed in internal)
	units    []string
	cfgMap   map[string]string
}

var hCfgKeys = []string{"goos", "goarch", "pkg", "cpu", "note", "commit"}
var hCfgVals = map[string][]string{
	"goos":   {"linux", "darwin", "windows", "plan9"},
	"goarch": {"amd64", "arm64", "386"},
	"pkg":    {"p/a", "p/b", "p/c", "golang.org/x/perf/a/very/long/package/path/that/goes/on/and/on/and/on/impl1", "golang.org/x/perf/a/very/long/package/path/that/goes/on/and/on/and/on/impl2"},
	"cpu":    {"1", "2", "10", "1k", "1Ki", "2M", "1500", "NaN", "inf", "abc", "zed", "3Gi", "1Zi", "1Yi", "2Z", "5.5", "0.5k", "999999999.5", "1000000000", "9.999999994e-1", "1e0", "1.0000000006", "4", "8", "010", "0100", "007", "08", "012k", ".5k", "1.k", ".5Mi", "2.5k", "600", "5.", "0.000000000000000000000000125Ki", "1000000000000000000000000000000k", "0000000000000000000000000000000000002", "+Inf", "-Inf", "+inf", "Infinity", "-infinity", "+7", "\xb5", "\u00b5", "100000001Ki", "99999999Ki", "16777217k", "16777216k", "1Kib", "1001", "1010", "1023", "1025", "-3", "-20", "-0.5", "-1e3"},
	"note":   {"base", "opt", "opt2", "x y", "zz", "\xffa", "\xfeb", "\xc3", "é", "\U00010000", "\uffff", "\xf0\x90", "opt ", "opt\t", "base \t", "box\xe9", "box\xe8"}, // invalid UTF-8 and astral runes: bytewise is not code-point order
	"commit": {"c1", "c2", "c3", "c4", "c5", "c6"},
}

// hShared values occur under every configuration key, so that the same string is first observed at different times under different keys.
var hShared = []string{"4", "8", "16", "x", "a\x00", "\x00b", "a", "b", "\x00", "ab", "bc", "abc", "c", "a", "b", "x"} // NUL bytes: values that run into each other when joined naively

var hSubKeys = []string{"size", "align", "poly", "fmt", "size2", "al"}
var hSubVals = map[string][]string{
	"size":  {"1", "2", "10", "100", "1k", "1Ki", "64", "1M", "abc", "NaN", "010", "0100", ".5k", "1.k", "600"},
	"align": {"0", "1", "2"},
	"poly":  {"IEEE", "Castagnoli", "Koopman", "x86-64", "x86-32", "x86"}, // "-digits" inside a name is a GOMAXPROCS suffix only at its very end
	"fmt":   {"json", "gob", "xml", "v-1", "v-2", "x=1", "x=2", "=", "a=b=c"}, // '=' inside a value: only the first one separates key and value
	"size2": {"7", "8", "9"}, // a key that has the projected key "size" as a strict prefix
	"al":    {"p", "q"},      // a strict prefix of "align"
}
var hBases = []string{"Encode", "Decode", "Sort", "CRC", "SHA-256", "SHA-512", "X-1"} // a dash and digits inside the base are part of it when sub-name parts follow
var hUnits = []string{"sec/op", "B/op", "allocs/op", "B/s", "widgets"}

// hTinyAlphabet: this run draws all configuration values from a three-string alphabet
var hTinyAlphabet bool

func hGenResult(T *sim.Tape, universe int, nsub int) *hResult {
	res := &hResult{cfgMap: map[string]string{}, internal: map[string]bool{}}
	// the key universe grows: only the first `universe` file keys may appear
	perm := T.Perm(universe, "cfgorder")
	for _, i := range perm {
		k := hCfgKeys[i]
		if T.Intn(4, "cfg-missing") == 0 {
			continue // missing value
		}
		vals := hCfgVals[k]
		nv := len(vals)
		if k != "cpu" && nv > 3 && T.Intn(2, "narrow") == 0 {
			nv = 3
		}
		v := vals[T.Intn(nv, "cfgval")]
		if T.Intn(4, "shared-val") == 0 {
			v = sim.Pick(T, hShared, "sharedv")
		}
		if hTinyAlphabet {
			// every value from {a, b, ab}: many distinct tuples whose values run together to the same bytes
			v = []string{"a", "b", "ab", "a", "b", "ba"}[T.Intn(6, "tinyval")]
		}
		if T.Intn(12, "explicit-empty") == 0 {
			v = "" // an explicitly empty value counts as missing
		}
		res.cfg = append(res.cfg, [2]string{k, v})
		res.cfgMap[k] = v
		if T.Intn(10, "internal") == 0 {
			res.internal[k] = true // e.g. a tool called SetConfig: visible to a plain key, never part of .config
		}
	}
	name := sim.Pick(T, hBases, "base")
	sp := T.Perm(nsub, "suborder")
	for _, i := range sp {
		k := hSubKeys[i]
		if T.Intn(3, "sub-missing") == 0 {
			continue
		}
		name += "/" + k + "=" + sim.Pick(T, hSubVals[k], "subval")
	}
	if T.Intn(10, "explicit-gomaxprocs") == 0 {
		// GOMAXPROCS spelled as a sub-name key, at the end or in the middle of the name
		part := "/gomaxprocs=" + []string{"1", "4", "8"}[T.Intn(3, "gmpv")]
		if segs := strings.Split(name, "/"); len(segs) > 1 && T.Bool("gmp-middle") {
			at := 1 + T.Intn(len(segs)-1, "gmp-at")
			name = strings.Join(segs[:at], "/") + part + "/" + strings.Join(segs[at:], "/")
		} else {
			name += part
		}
	}
	if T.Intn(3, "positional") == 0 {
		name += "/" + []string{"plain", "x"}[T.Intn(2, "posv")]
	}
	if T.Intn(3, "procs") == 0 {
		name += "-" + []string{"1", "8", "16", "0", "08"}[T.Intn(5, "procsv")]
	}
	res.name = name
	nu := 1 + T.Intn(3, "nunits")
	up := T.Perm(len(hUnits), "unitorder")
	for i := 0; i < nu; i++ {
		res.units = append(res.units, hUnits[up[i]])
	}
	if T.Intn(30, "no-values") == 0 {
		res.units = nil
		return res
	}
	if T.Intn(20, "empty-unit") == 0 {
		res.units[T.Intn(nu, "which-empty")] = "" // an API-built value without a unit: its .unit is the missing value
	}
	return res
}

// fillResult overwrites r in place the way benchfmt.Reader reuses its one Result: name bytes, configuration
// value buffers and the measurement slice are recycled.
func (h *hResult) fillResult(r *benchfmt.Result) *benchfmt.Result {
	r.Name = append(r.Name[:0], h.name...)
	r.Iters = 1
	old := r.Config
	r.Config = r.Config[:0]
	for i, kv := range h.cfg {
		var buf []byte
		if i < len(old) {
			buf = old[i].Value[:0]
		}
		r.Config = append(r.Config, benchfmt.Config{Key: kv[0], Value: append(buf, kv[1]...), File: !h.internal[kv[0]]})
	}
	r.Values = r.Values[:0]
	for i, u := range h.units {
		r.Values = append(r.Values, benchfmt.Value{Value: float64(i + 1), Unit: u})
	}
	// the Result's key index is private; a fresh struct with the recycled slices keeps it consistent
	*r = benchfmt.Result{Config: r.Config, Name: r.Name, Iters: r.Iters, Values: r.Values}
	return r
}

func (h *hResult) toResult() *benchfmt.Result {
	r := &benchfmt.Result{Name: benchfmt.Name(h.name), Iters: 1}
	for _, kv := range h.cfg {
		r.Config = append(r.Config, benchfmt.Config{Key: kv[0], Value: []byte(kv[1]), File: !h.internal[kv[0]]})
	}
	for i, u := range h.units {
		r.Values = append(r.Values, benchfmt.Value{Value: float64(i + 1), Unit: u})
	}
	return r
}

var _ = strings.Repeat

// name decomposition of the reference model (generated names are well formed).
func hNameParts(name string) (base string, parts []string, procs string) {
	if i := strings.LastIndex(name, "-"); i >= 0 && i < len(name)-1 {
		digits := true
		for _, c := range name[i+1:] {
			if c < '0' || c > '9' {
				digits = false
			}
		}
		if digits {
			procs = name[i+1:]
			name = name[:i]
		}
	}
	segs := strings.Split(name, "/")
	return segs[0], segs[1:], procs
}

// hExtract is the reference extractor (DESIGN.md A.3).
func hExtract(h *hResult, key string, exclNameKeys map[string]bool) string {
	base, parts, procs := hNameParts(h.name)
	switch {
	case key == ".name":
		return base
	case key == ".fullname":
		var b strings.Builder
		if exclNameKeys[".name"] {
			b.WriteString("*")
		} else {
			b.WriteString(base)
		}
		for _, p := range parts {
			drop := false
			if eq := strings.Index(p, "="); eq >= 0 && exclNameKeys["/"+p[:eq]] {
				drop = true
			}
			if !drop {
				b.WriteString("/" + p)
			}
		}
		if procs != "" && !exclNameKeys["/gomaxprocs"] {
			b.WriteString("-" + procs)
		}
		return b.String()
	case key == "/gomaxprocs":
		if procs != "" {
			return procs
		}
		fallthrough
	case strings.HasPrefix(key, "/"):
		for _, p := range parts {
			if strings.HasPrefix(p, key[1:]+"=") {
				return p[len(key):]
			}
		}
		return ""
	default:
		return h.cfgMap[key]
	}
}

// ---- reference number parser for @num ----

func hParseNum(s string) (v float64, class int) { // class 0 number, 1 NaN, 2 non-number, 3 not prescribed (a word containing digits)
	defer func() {
		if class == 2 && strings.ContainsAny(s, "0123456789") {
			class = 3
		}
	}()
	if f, err := strconv.ParseFloat(s, 64); err == nil {
		if math.IsNaN(f) {
			return 0, 1
		}
		return f, 0
	}
	t := strings.TrimSuffix(strings.TrimSuffix(s, "B"), "b")
	iec := strings.HasSuffix(t, "i")
	if iec {
		t = t[:len(t)-1]
	}
	if len(t) < 2 {
		return 0, 2
	}
	exp := strings.IndexByte("kKMGTPEZY", t[len(t)-1])
	if exp < 0 {
		return 0, 2
	}
	if exp > 0 {
		exp-- // 'k' and 'K' are both 10^3
	}
	f, err := strconv.ParseFloat(t[:len(t)-1], 64)
	if err != nil {
		return 0, 2
	}
	basef := 1000.0
	if iec {
		basef = 1024.0
	}
	for i := 0; i <= exp; i++ {
		f *= basef
	}
	return f, 0
}

// ---- model of one projection instance ----

type hFlat struct {
	name  string // field name as reported by the API
	order string
	fixed map[string]int
	group bool // .config sub-field
}

type hProj struct {
	expr     hExpr
	proj     *Projection
	unitF    *Field
	cfgOrder []string        // keys of the .config group in first-seen order
	cfgSeen  map[string]bool // for the .config group
	byKey    map[Key]string  // key -> canonical model tuple
	byTuple  map[string]Key
	keys     []Key // distinct keys in creation order
	keyIdx   map[Key]int
	cfgLate  map[string]bool           // .config sub-fields created when the projection already had keys
	tuples   map[Key]map[string]string // field name -> value (positions shift as .config grows)
	rank     map[string]map[string]int // flat field name -> value -> first-observation rank
	held     []hHeld                   // slices returned by ProjectValues that the caller kept
}

type hHeld struct {
	got  []Key // the slice as returned
	want []Key // its elements at the time
	desc string
}

// checkHeld: keys handed out earlier are values; projecting further results must not change them.
func (hp *hProj) checkHeld(c *hCheck) {
	for _, h := range hp.held {
		for i := range h.want {
			if h.got[i] != h.want[i] {
				c.r.Fail("key-identity", "returned-keys-changed", "%s projection %q: the keys ProjectValues returned for %s were %v and read %v after later results were projected", c.label, hp.expr.text, h.desc, h.want, h.got)
			}
		}
	}
}

func newHProj(e hExpr) *hProj {
	return &hProj{expr: e, keyIdx: map[Key]int{}, cfgLate: map[string]bool{}, cfgSeen: map[string]bool{}, byKey: map[Key]string{}, byTuple: map[string]Key{}, tuples: map[Key]map[string]string{}, rank: map[string]map[string]int{}}
}

type hInstance struct {
	parser  *ProjectionParser
	filter  *Filter
	projs   []*hProj // in expression order (not parse order)
	residue *hProj
	order   []int
	scratch *benchfmt.Result // reused in place when the run imitates a Reader stream
	rd      *benchfmt.Reader // the run's results come out of a real Reader, one small input per result
}

// viaReader renders h as a small benchmark file and hands back the Result that a (re-used) benchfmt.Reader
// parses from it: the Result then carries a position and is the Reader's one recycled object. ok is false when
// the text form would not read back as h (values the text format cannot carry, internal keys, no measurements).
func (h *hResult) viaReader(inst *hInstance, file string) (*benchfmt.Result, bool) {
	if len(h.internal) > 0 || len(h.units) == 0 || strings.ContainsAny(h.name, " \t\n\r") {
		return nil, false
	}
	var sb strings.Builder
	for _, kv := range h.cfg {
		v := kv[1]
		if v == "" || strings.TrimSpace(v) != v || !utf8.ValidString(v) {
			return nil, false
		}
		for i := 0; i < len(v); i++ {
			if v[i] < 0x20 || v[i] == 0x7f {
				return nil, false
			}
		}
		sb.WriteString(kv[0] + ": " + v + "\n")
	}
	sb.WriteString("\nBenchmark" + h.name + " 1")
	for i, u := range h.units {
		if u == "" {
			return nil, false
		}
		fmt.Fprintf(&sb, " %d %s", i+1, u)
	}
	sb.WriteString("\n")
	if inst.rd == nil {
		inst.rd = benchfmt.NewReader(strings.NewReader(sb.String()), file)
	} else {
		inst.rd.Reset(strings.NewReader(sb.String()), file)
	}
	if !inst.rd.Scan() {
		return nil, false
	}
	res, ok := inst.rd.Result().(*benchfmt.Result)
	if !ok || string(res.Name) != h.name || len(res.Config) != len(h.cfg) || len(res.Values) != len(h.units) {
		return nil, false
	}
	for i, kv := range h.cfg {
		if res.Config[i].Key != kv[0] || string(res.Config[i].Value) != kv[1] || !res.Config[i].File {
			return nil, false
		}
	}
	for i, u := range h.units {
		if res.Values[i].Unit != u {
			return nil, false
		}
	}
	return res, true
}

func hFieldText(f hField) string {
	q := func(s string) string {
		if s == "" || strings.ContainsAny(s, " \t\"()@,:*=") || s[0] == '-' {
			return strconv.Quote(s)
		}
		return s
	}
	switch f.order {
	case "first":
		return q(f.key)
	case "fixed":
		var ws []string
		for _, w := range f.fixed {
			ws = append(ws, q(w))
		}
		return q(f.key) + "@(" + strings.Join(ws, " ") + ")"
	}
	return q(f.key) + "@" + f.order
}

func hGenExprs(T *sim.Tape) []hExpr {
	pool := []string{".name", ".fullname", ".config", "/size", "/align", "/gomaxprocs", "/poly", "goos", "pkg", "note", "cpu", "commit", "/size2", "/al", "/fmt"} // "/size2" and "/al": one projected sub-name key's name is a strict prefix of another's
	perm := T.Perm(len(pool), "keypool")
	n := 2 + T.Intn(4, "nexprs")
	var exprs []hExpr
	pi := 0
	for i := 0; i < n; i++ {
		nf := 1 + T.Intn(3, "nfields")
		var e hExpr
		for j := 0; j < nf && pi < len(pool); j++ {
			k := pool[perm[pi]]
			pi++
			f := hField{key: k, order: "first"}
			switch T.Intn(6, "order") {
			case 0:
				f.order = "alpha"
			case 1:
				f.order = "num"
			case 2:
				if k != ".config" && k != ".fullname" && k != ".name" && k != "/gomaxprocs" {
					var vals []string
					if strings.HasPrefix(k, "/") {
						vals = hSubVals[k[1:]]
					} else {
						vals = hCfgVals[k]
					}
					vp := T.Perm(len(vals), "fixedperm")
					m := 2 + T.Intn(len(vals)-1, "nfixed")
					f.order = "fixed"
					for _, x := range vp[:m] {
						f.fixed = append(f.fixed, vals[x])
					}
					if T.Intn(4, "fixed-repeats") == 0 {
						// a value named twice in a row: the listed order of the distinct values is unchanged
						at := T.Intn(len(f.fixed), "fixed-repeat-at")
						f.fixed = append(f.fixed[:at+1], f.fixed[at:]...)
					}
					if T.Intn(3, "fixed-with-missing") != 0 {
						f.fixed = append(f.fixed, "") // the missing value is listed too
					}
				}
			}
			e.fields = append(e.fields, f)
		}
		if len(e.fields) == 0 {
			break
		}
		var ts []string
		for _, f := range e.fields {
			ts = append(ts, hFieldText(f))
		}
		e.text = strings.Join(ts, []string{",", " ", ", "}[T.Intn(3, "fieldsep")])
		exprs = append(exprs, e)
	}
	if T.Intn(3, "with-unit") == 0 {
		exprs[0].unit = true
		if len(exprs) > 1 && T.Intn(3, "second-unit") == 0 {
			exprs[len(exprs)-1].unit = true // two projections of one parser, each with a .unit field and a history of its own
		}
	}
	return exprs
}

func hNewInstance(r *sim.Run, exprs []hExpr, order []int, resEarly int, badAt int) *hInstance {
	inst := &hInstance{parser: new(ProjectionParser), order: order}
	f, err := NewFilter("*")
	if err != nil {
		r.Fail("harness", "filter", "%v", err)
	}
	inst.filter = f
	inst.projs = make([]*hProj, len(exprs))
	residueAt := len(order)
	if resEarly >= 0 && resEarly < len(order) {
		residueAt = resEarly
	}
	takeResidue := func(parsedSoFar []int) {
		// residue model: the groups not projected by the expressions parsed so far
		var re hExpr
		haveCfg, haveFull := false, false
		for _, i := range parsedSoFar {
			for _, f := range exprs[i].fields {
				if f.key == ".config" {
					haveCfg = true
				}
				if f.key == ".fullname" {
					haveFull = true
				}
			}
		}
		if !haveCfg {
			re.fields = append(re.fields, hField{key: ".config", order: "first"})
		}
		if !haveFull {
			re.fields = append(re.fields, hField{key: ".fullname", order: "first"})
		}
		re.text = "<residue>"
		inst.residue = newHProj(re)
		inst.residue.proj = inst.parser.Residue()
	}
	for oi, i := range order {
		if oi == residueAt {
			takeResidue(order[:oi])
		}
		if oi == badAt && oi > 0 {
			// an expression that is rejected (unknown order) after naming keys that earlier, accepted expressions
			// already project: it must leave what those registered untouched
			prevE := exprs[order[r.T.Intn(oi, "bad-parse-reuses")]]
			// (none of these registers anything new before it is turned down)
			bad := hFieldText(prevE.fields[0]) + []string{",goos@bogus", ",.config@(x y)", ",.unit", ",", ",@alpha", ",.config@(x y),.fullname"}[r.T.Intn(6, "bad-parse-kind")]
			if r.T.Intn(4, "bad-parse-alone") == 0 {
				bad = []string{".config@(a b)", ".unit", ".config@(\"\")", "("}[r.T.Intn(4, "bad-alone-kind")]
			}
			if _, err := inst.parser.Parse(bad, inst.filter); err == nil {
				r.Fail("parse", "unknown-order-accepted", "Parse(%q) succeeded", bad)
			}
			r.Hit("a rejected Parse between accepted ones")
		}
		e := exprs[i]
		hp := newHProj(e)
		var err error
		if e.unit {
			hp.proj, hp.unitF, err = inst.parser.ParseWithUnit(e.text, inst.filter)
		} else {
			hp.proj, err = inst.parser.Parse(e.text, inst.filter)
		}
		if err != nil {
			r.Fail("parse", "valid-expression-rejected", "Parse(%q) = %v", e.text, err)
		}
		inst.projs[i] = hp
	}
	if residueAt >= len(order) {
		takeResidue(order)
	}
	return inst
}

// hWorld is what all instances of one run share: the exclusion sets.
type hWorld struct {
	exprs       []hExpr
	cfgSpecific map[string]bool // specific file keys named anywhere
	nameKeys    map[string]bool // ".name" and "/k" named anywhere
}

func hNewWorld(exprs []hExpr) *hWorld {
	w := &hWorld{exprs: exprs, cfgSpecific: map[string]bool{}, nameKeys: map[string]bool{}}
	for _, e := range exprs {
		for _, f := range e.fields {
			switch {
			case f.key == ".config" || f.key == ".fullname":
			case f.key == ".name" || strings.HasPrefix(f.key, "/"):
				w.nameKeys[f.key] = true
			default:
				w.cfgSpecific[f.key] = true
			}
		}
	}
	return w
}

// flat returns the model's flattened field list (API order): top-level fields
// in expression order, the sub-fields of .config in first-seen order.
func (hp *hProj) flat() []hFlat {
	var out []hFlat
	for _, f := range hp.expr.fields {
		var fixed map[string]int
		if f.order == "fixed" {
			fixed = map[string]int{}
			for i, v := range f.fixed {
				fixed[v] = i
			}
		}
		if f.key == ".config" {
			for _, k := range hp.cfgOrder {
				out = append(out, hFlat{name: k, order: f.order, group: true})
			}
			continue
		}
		out = append(out, hFlat{name: f.key, order: f.order, fixed: fixed})
	}
	if hp.expr.unit {
		out = append(out, hFlat{name: ".unit", order: "first"})
	}
	return out
}

// syncFields brings the model's list of .config sub-fields in line with the projection's own. Which file keys get a
// sub-field, and when, is the implementation's business as long as every key that has shown a value in a projected
// result has one, no sub-field stands for a key that is named specifically elsewhere or was never seen, none appears
// twice and the ones that exist keep their order.
func (hp *hProj) syncFields(c *hCheck, w *hWorld, h *hResult) {
	hasCfg := false
	for _, f := range hp.expr.fields {
		if f.key == ".config" {
			hasCfg = true
		}
	}
	if !hasCfg {
		return
	}
	for _, kv := range h.cfg {
		if !h.internal[kv[0]] && !w.cfgSpecific[kv[0]] {
			hp.cfgSeen[kv[0]] = true
		}
	}
	var api []string
	for _, f := range hp.proj.Fields() {
		if f.IsTuple {
			for _, sub := range f.Sub {
				api = append(api, sub.Name)
			}
		}
	}
	dup := map[string]bool{}
	for _, k := range api {
		if dup[k] {
			c.r.Fail("fields", "flattened-fields-differ", "%s projection %q: .config has two sub-fields named %q: %v", c.label, hp.expr.text, k, api)
		}
		dup[k] = true
		if !hp.cfgSeen[k] {
			c.r.Fail("fields", "flattened-fields-differ", "%s projection %q: .config has a sub-field %q, which is no file key of any result projected so far (or is named specifically elsewhere): %v", c.label, hp.expr.text, k, api)
		}
	}
	j := 0
	for _, k := range hp.cfgOrder { // the earlier sub-fields, in their order, are a subsequence of the present ones
		for j < len(api) && api[j] != k {
			j++
		}
		if j == len(api) {
			c.r.Fail("fields", "flattened-fields-differ", "%s projection %q: .config sub-fields were %v and are %v now", c.label, hp.expr.text, hp.cfgOrder, api)
		}
	}
	was := map[string]bool{}
	for _, k := range hp.cfgOrder {
		was[k] = true
	}
	for _, k := range api {
		if !was[k] && len(hp.keys) > 0 {
			hp.cfgLate[k] = true // keys made before this sub-field existed lack it implicitly
		}
	}
	hp.cfgOrder = api
}

// tuple returns the model's values of a result aligned with flat().
func (hp *hProj) tuple(w *hWorld, h *hResult, unit string) []string {
	var out []string
	for _, f := range hp.expr.fields {
		if f.key == ".config" {
			for _, k := range hp.cfgOrder {
				if h.internal[k] {
					out = append(out, "") // internal configuration is not file configuration
				} else {
					out = append(out, h.cfgMap[k])
				}
			}
			continue
		}
		out = append(out, hExtract(h, f.key, w.nameKeys))
	}
	if hp.expr.unit {
		out = append(out, unit)
	}
	return out
}

func canonTuple(fl []hFlat, vals []string) string {
	var b strings.Builder
	for i, v := range vals {
		if v != "" {
			fmt.Fprintf(&b, "%s=%q;", fl[i].name, v)
		}
	}
	return b.String()
}

type hCheck struct {
	r     *sim.Run
	prop  string // "C08" or "C09"
	label string // instance label for messages
}

// observe records one projected key against the model and performs the
// identity checks of C08 (1) and (2).
func (hp *hProj) observe(c *hCheck, w *hWorld, h *hResult, key Key, unit string) {
	r := c.r
	hp.syncFields(c, w, h)
	vals := hp.tuple(w, h, unit)
	fl := hp.flat()
	for _, f := range hp.expr.fields {
		if f.key != ".config" {
			continue
		}
		have := map[string]bool{}
		for _, k := range hp.cfgOrder {
			have[k] = true
		}
		for _, kv := range h.cfg {
			if kv[1] != "" && !h.internal[kv[0]] && !w.cfgSpecific[kv[0]] && !have[kv[0]] {
				r.Fail("fields", "flattened-fields-differ", "%s projection %q: result %q carries %s=%q but .config has no sub-field for it (%v)", c.label, hp.expr.text, h.name, kv[0], kv[1], hp.cfgOrder)
			}
		}
	}
	t := canonTuple(fl, vals)
	isNew := false
	if k2, ok := hp.byTuple[t]; ok {
		if k2 != key && c.prop == "C08" {
			r.Fail("key-identity", "equal-tuples-different-keys", "%s projection %q: result %q/%v projects to tuple %s, seen before, but the key is not equal to the earlier key (%s vs %s)", c.label, hp.expr.text, h.name, h.cfg, t, key, k2)
		}
	} else {
		isNew = true
	}
	if t2, ok := hp.byKey[key]; ok {
		if t2 != t && c.prop == "C08" {
			r.Fail("key-identity", "different-tuples-equal-keys", "%s projection %q: result %q/%v projects to tuple %s but its key equals an earlier key of tuple %s", c.label, hp.expr.text, h.name, h.cfg, t, t2)
		}
	} else {
		hp.byKey[key] = t
		hp.keyIdx[key] = len(hp.keys)
		hp.keys = append(hp.keys, key)
	}
	if isNew {
		hp.byTuple[t] = key
		// first-observation ranks (model): assigned when a tuple is first seen
		for i, f := range fl {
			if f.group && vals[i] == "" && hp.cfgLate[f.name] {
				continue // when the missing value of a .config key that appeared after other keys existed counts as observed is not prescribed
			}
			m := hp.rank[f.name]
			if m == nil {
				m = map[string]int{}
				hp.rank[f.name] = m
			}
			if _, ok := m[vals[i]]; !ok {
				m[vals[i]] = len(m)
			}
		}
	}
	tm := map[string]string{}
	for i, f := range fl {
		tm[f.name] = vals[i]
	}
	hp.tuples[key] = tm
	if c.prop == "C08" {
		hp.checkGet(c, key, fl, tm)
	}
}

// checkGet: the API's flattened fields are the model's, and Key.Get returns the extracted value.
func (hp *hProj) checkGet(c *hCheck, key Key, fl []hFlat, vals map[string]string) {
	r := c.r
	api := hp.proj.FlattenedFields()
	if len(api) != len(fl) {
		var names []string
		for _, f := range api {
			names = append(names, f.Name)
		}
		r.Fail("fields", "flattened-fields-differ", "%s projection %q: FlattenedFields = %v, model has %d fields %v", c.label, hp.expr.text, names, len(fl), fl)
	}
	// Fields() is the same list with the sub-fields of .config gathered under one tuple field, in expression order
	var tops []string
	var walked []*Field
	for _, f := range hp.proj.Fields() {
		if f.IsTuple {
			tops = append(tops, f.Name+"{}")
			walked = append(walked, f.Sub...)
		} else {
			tops = append(tops, f.Name)
			walked = append(walked, f)
			if len(f.Sub) != 0 {
				r.Fail("fields", "fields-structure-differs", "%s projection %q: plain field %s has sub-fields", c.label, hp.expr.text, f.Name)
			}
		}
	}
	var wantTops []string
	for _, f := range hp.expr.fields {
		if f.key == ".config" {
			wantTops = append(wantTops, ".config{}")
		} else {
			wantTops = append(wantTops, f.key)
		}
	}
	if hp.expr.unit {
		wantTops = append(wantTops, ".unit")
	}
	if strings.Join(tops, " ") != strings.Join(wantTops, " ") {
		r.Fail("fields", "fields-structure-differs", "%s projection %q: Fields() = %v, the expression has %v", c.label, hp.expr.text, tops, wantTops)
	}
	if len(walked) != len(api) {
		r.Fail("fields", "fields-structure-differs", "%s projection %q: Fields() holds %d leaves, FlattenedFields %d", c.label, hp.expr.text, len(walked), len(api))
	}
	for i := range walked {
		if walked[i] != api[i] {
			r.Fail("fields", "fields-structure-differs", "%s projection %q: leaf %d of Fields() is %s, FlattenedFields has %s", c.label, hp.expr.text, i, walked[i].Name, api[i].Name)
		}
	}
	for i, f := range api {
		if f.Name != fl[i].name {
			r.Fail("fields", "flattened-fields-differ", "%s projection %q: flattened field %d is %q, model says %q", c.label, hp.expr.text, i, f.Name, fl[i].name)
		}
		want := vals[f.Name]
		if got := key.Get(f); got != want {
			sig := "get-differs"
			switch {
			case fl[i].group:
				sig = "get-differs-config-subfield"
			case f.Name == ".fullname":
				sig = "get-differs-fullname"
			}
			r.Fail("key-get", sig, "%s projection %q: Key.Get(%s) = %q, extracted value is %q (key %s)", c.label, hp.expr.text, f.Name, got, want, key)
		}
	}
}

// modelCmp compares two values of one flat field: -1, +1, or 0 when the
// documented order does not decide.
func (hp *hProj) modelCmp(f hFlat, a, b string) int {
	switch f.order {
	case "alpha":
		return strings.Compare(a, b)
	case "fixed":
		ia, oka := f.fixed[a]
		ib, okb := f.fixed[b]
		if oka && okb && ia != ib {
			if ia < ib {
				return -1
			}
			return 1
		}
		return 0
	case "num":
		va, ca := hParseNum(a)
		vb, cb := hParseNum(b)
		if ca == 3 || cb == 3 {
			return 0
		}
		if ca != cb {
			if ca < cb {
				return -1
			}
			return 1
		}
		if ca == 0 && va != vb {
			if va < vb {
				return -1
			}
			return 1
		}
		return 0
	default: // first observation
		ra, oka := hp.rank[f.name][a]
		rb, okb := hp.rank[f.name][b]
		if oka && okb && ra != rb {
			if ra < rb {
				return -1
			}
			return 1
		}
		return 0
	}
}

// checkOrder performs the C09 checks on the distinct keys of one projection.
func (hp *hProj) checkOrder(c *hCheck, T *sim.Tape) {
	r := c.r
	keys := hp.keys
	if len(keys) > 40 {
		keys = keys[:40]
	}
	n := len(keys)
	fl := hp.flat()
	pad := func(m map[string]string) []string {
		v := make([]string, len(fl))
		for i, f := range fl {
			v[i] = m[f.name]
		}
		return v
	}
	less := make([][]bool, n)
	for i := range less {
		less[i] = make([]bool, n)
		for j := range less[i] {
			less[i][j] = keys[i].Less(keys[j])
		}
	}
	for i := 0; i < n; i++ {
		if less[i][i] {
			r.Fail("order-axioms", "not-irreflexive", "projection %q: key %s is less than itself", hp.expr.text, keys[i])
		}
		for j := 0; j < n; j++ {
			if i == j {
				continue
			}
			if less[i][j] && less[j][i] {
				r.Fail("order-axioms", "not-asymmetric", "projection %q: %s < %s and %s < %s", hp.expr.text, keys[i], keys[j], keys[j], keys[i])
			}
			if !less[i][j] && !less[j][i] {
				r.Fail("order-axioms", "not-total", "projection %q: distinct keys %s and %s are not ordered either way", hp.expr.text, keys[i], keys[j])
			}
			// agreement with the documented per-field orders in the first differing flattened field. The residue has no
			// expression that could say how its fields are ordered (its documentation promises no meaningful order):
			// for it only the order axioms and SortKeys are checked
			va, vb := pad(hp.tuples[keys[i]]), pad(hp.tuples[keys[j]])
			for fi := range fl {
				if hp.expr.text == "<residue>" {
					break
				}
				if va[fi] == vb[fi] {
					continue
				}
				if m := hp.modelCmp(fl[fi], va[fi], vb[fi]); m != 0 && (m < 0) != less[i][j] {
					sig := "order-differs-" + fl[fi].order
					if fl[fi].group {
						sig += "-config-subfield"
					}
					if va[fi] == "" || vb[fi] == "" {
						sig += "-missing-value"
					}
					r.Fail("field-order", sig, "projection %q: keys %s and %s first differ in field %s (%q vs %q, order %s); the documented order puts the %s first but Less says otherwise (ranks %v)",
						hp.expr.text, keys[i], keys[j], fl[fi].name, va[fi], vb[fi], fl[fi].order, map[bool]string{true: "former", false: "latter"}[m < 0], hp.rank[fl[fi].name])
				}
				break
			}
		}
	}
	for i := 0; i < n; i++ {
		for j := 0; j < n; j++ {
			if !less[i][j] {
				continue
			}
			for k := 0; k < n; k++ {
				if less[j][k] && !less[i][k] {
					r.Fail("order-axioms", "not-transitive", "projection %q: %s < %s < %s but not %s < %s", hp.expr.text, keys[i], keys[j], keys[k], keys[i], keys[k])
				}
			}
		}
	}
	// SortKeys: same result from any initial arrangement, a sorted permutation of the input
	if n >= 2 {
		var ref []Key
		for p := 0; p < 5; p++ {
			perm := T.Perm(n, "sortperm")
			in := make([]Key, n)
			for i, j := range perm {
				in[i] = keys[j]
			}
			SortKeys(in)
			seen := map[Key]bool{}
			for _, k := range in {
				seen[k] = true
			}
			if len(seen) != n {
				r.Fail("sort", "not-a-permutation", "projection %q: SortKeys output has %d distinct keys, input had %d", hp.expr.text, len(seen), n)
			}
			for i := 0; i+1 < n; i++ {
				if in[i+1].Less(in[i]) {
					r.Fail("sort", "output-not-sorted", "projection %q: SortKeys output has %s before %s", hp.expr.text, in[i], in[i+1])
				}
			}
			if ref == nil {
				ref = in
				continue
			}
			for i := range in {
				if in[i] != ref[i] {
					r.Fail("sort", "depends-on-arrangement", "projection %q: SortKeys gives different sequences for different initial arrangements (position %d: %s vs %s)", hp.expr.text, i, in[i], ref[i])
				}
			}
		}
		r.Hit("SortKeys compared over 5 arrangements")
	}
}

func hRun(t *testing.T, r *sim.Run, prop string) {
	T := r.T
	exprs := hGenExprs(T)
	w := hNewWorld(exprs)
	n := len(exprs)
	// parse orders: the primary one is drawn; all others are replayed in separate parser instances
	var orders [][]int
	orders = append(orders, T.Perm(n, "parse-order"))
	if prop == "C08" {
		if n <= 4 {
			var rec func(cur []int, used []bool)
			rec = func(cur []int, used []bool) {
				if len(cur) == n {
					orders = append(orders, append([]int(nil), cur...))
					return
				}
				for i := 0; i < n; i++ {
					if !used[i] {
						used[i] = true
						rec(append(cur, i), used)
						used[i] = false
					}
				}
			}
			rec(nil, make([]bool, n))
			r.Hit("every parse order replayed")
		} else {
			for i := 0; i < 12; i++ {
				orders = append(orders, T.Perm(n, "parse-order-x"))
			}
		}
	}
	var insts []*hInstance
	for _, o := range orders {
		// Residue() is normally taken last; now and then earlier (all parsing still precedes all projecting)
		resEarly := -1
		if T.Intn(5, "residue-early") == 0 {
			resEarly = T.Intn(len(o)+1, "residue-at")
			r.Hit("Residue() taken before a later Parse")
		}
		badAt := -1
		if T.Intn(6, "bad-parse") == 0 {
			badAt = T.Intn(len(o), "bad-parse-at")
		}
		insts = append(insts, hNewInstance(r, exprs, o, resEarly, badAt))
	}
	for i, e := range exprs {
		r.Logf("expr %d: %q unit=%v", i, e.text, e.unit)
	}
	r.Logf("parse order %v (+%d other orders)", orders[0], len(orders)-1)
	// the filter that fixed value lists imply is the caller's to apply; one that does not sees unlisted values in those fields
	noFilter := T.Intn(8, "filter-not-applied") == 0
	if noFilter {
		r.Hit("results projected without applying the filter of the fixed value lists")
	}
	hTinyAlphabet = T.Intn(8, "tiny-alphabet") == 0
	defer func() { hTinyAlphabet = false }()
	reuse := T.Bool("reuse-result-object")
	if reuse {
		r.Hit("one Result object reused in place for the whole stream")
	}
	// results that come out of a real, re-used Reader (file name and line set), where the text format can carry them
	fromReader := T.Intn(4, "results-from-reader") == 0
	readerFiles := T.Intn(2, "reader-file-names")
	nres := 1 + T.Small(0, 59, "nresults")
	universe, nsub := 1+T.Intn(3, "universe0"), 1+T.Intn(2, "nsub0")
	// losslessness bookkeeping on the primary instance
	jointByKeys, jointByInfo := map[string]string{}, map[string]string{}
	projected := 0
	var lastH *hResult
	// nsfCheck calls NonSingularFields on a drawn multiset of a projection's keys and compares with the model
	nsfCheck := func(hp *hProj, check bool) {
		if len(hp.keys) < 2 {
			return
		}
		m := 2 + T.Intn(5, "nsf-n")
		var sub []Key
		for i := 0; i < m; i++ {
			sub = append(sub, hp.keys[T.Intn(len(hp.keys), "nsf-key")])
		}
		fl := hp.flat()
		var want []string
		for _, f := range fl {
			base := hp.tuples[sub[0]][f.name]
			for _, k := range sub[1:] {
				val := hp.tuples[k][f.name]
				if val != base {
					want = append(want, f.name)
					break
				}
			}
		}
		var got []string
		for _, f := range NonSingularFields(sub) {
			got = append(got, f.Name)
		}
		if check && strings.Join(got, ",") != strings.Join(want, ",") {
			r.Fail("nonsingular", "fields-differ", "projection %q: NonSingularFields(%v) = %v, fields on which the tuples differ: %v", hp.expr.text, sub, got, want)
		}
	}
	for ri := 0; ri < nres; ri++ {
		if ri > 0 && T.Intn(12, "nsf-midstream") == 0 {
			// a reader in mid-stream: NonSingularFields and Key.String between two projected results
			for _, hp := range append(append([]*hProj(nil), insts[0].projs...), insts[0].residue) {
				nsfCheck(hp, prop == "C08")
				if len(hp.keys) > 0 {
					_ = hp.keys[T.Intn(len(hp.keys), "string-key")].String()
					// ... and a comparison: what it learns about the fields now must not outlive later results
					_ = hp.keys[T.Intn(len(hp.keys), "less-a")].Less(hp.keys[T.Intn(len(hp.keys), "less-b")])
				}
			}
			r.Hit("NonSingularFields called between two projected results")
		}
		if universe < len(hCfgKeys) && T.Intn(6, "grow") == 0 {
			universe++
			r.Hit("configuration key universe grew mid-stream")
		}
		if nsub < len(hSubKeys) && T.Intn(8, "growsub") == 0 {
			nsub++
		}
		var h *hResult
		h = hGenResult(T, universe, nsub)
		for k := range h.internal {
			if w.cfgSpecific[k] {
				delete(h.internal, k) // tool-internal values only on keys that fall into the .config group (the statement speaks of file configuration)
			}
		}
		if len(h.units) > 0 {
			lastH = h
		}
		r.Logf("result %d: %q cfg=%v units=%v", ri, h.name, h.cfg, h.units)
		for ii, inst := range insts {
			c := &hCheck{r: r, prop: prop, label: fmt.Sprintf("[parse order %v]", inst.order)}
			res := h.toResult()
			if reuse {
				if inst.scratch == nil {
					inst.scratch = &benchfmt.Result{}
				}
				res = h.fillResult(inst.scratch)
			}
			if fromReader {
				if rr, ok := h.viaReader(inst, []string{"f", "g"}[ri%2*readerFiles]); ok {
					res = rr
					if ii == 0 {
						r.Hit("result parsed from text by a re-used benchfmt.Reader (it carries a position)")
					}
				}
			}
			if len(h.units) == 0 {
				// a result without measurements: nothing for ProjectValues to return, and later keys are none the wiser
				for _, hp := range append(append([]*hProj(nil), inst.projs...), inst.residue) {
					if hp.expr.unit {
						if ks := hp.proj.ProjectValues(res); len(ks) != 0 {
							r.Fail("key-identity", "projectvalues-length", "ProjectValues returned %d keys for a result without values", len(ks))
						}
						hp.syncFields(c, w, h) // no key comes of it; the file keys it carries may or may not be known to the .config group from now on

					}
				}
				r.Hit("result without measurements passed to ProjectValues")
				continue
			}
			if !noFilter {
				ok, _ := inst.filter.Apply(res)
				if !ok {
					continue // removed by a fixed value list
				}
			}
			if ii == 0 {
				projected++
			}
			var joint strings.Builder
			for _, hp := range append(append([]*hProj(nil), inst.projs...), inst.residue) {
				if prop == "C09" && T.Intn(10, "projection-skips-result") == 0 {
					continue // projections of one parser need not all see every result: each has its own history
				}
				if hp.expr.unit {
					if T.Intn(4, "project-on-unit-projection") == 0 {
						// Project on a projection parsed with a unit: the unit field is empty
						k := hp.proj.Project(res)
						hp.observe(c, w, h, k, "")
						r.Hit("Project after ProjectValues on a unit projection")
					}
					keys := hp.proj.ProjectValues(res)
					if len(keys) != len(res.Values) {
						r.Fail("key-identity", "projectvalues-length", "ProjectValues returned %d keys for %d values", len(keys), len(res.Values))
					}
					if prop == "C08" {
						hp.checkHeld(c)
						if len(hp.held) < 6 && T.Intn(4, "hold-keys") == 0 {
							hp.held = append(hp.held, hHeld{keys, append([]Key(nil), keys...), fmt.Sprintf("result %d (%q)", ri, h.name)})
						}
					}
					for vi, k := range keys {
						hp.observe(c, w, h, k, res.Values[vi].Unit)
					}
					fmt.Fprintf(&joint, "%s|", hp.byKey[keys[0]])
				} else {
					k := hp.proj.Project(res)
					hp.observe(c, w, h, k, "")
					fmt.Fprintf(&joint, "#%d|", hp.keyIdx[hp.byTuple[hp.byKey[k]]])
					if T.Intn(8, "projectvalues-without-unit") == 0 {
						// without a .unit field every measurement projects to the result's key
						ks := hp.proj.ProjectValues(res)
						if len(ks) != len(res.Values) {
							r.Fail("key-identity", "projectvalues-length", "ProjectValues returned %d keys for %d values", len(ks), len(res.Values))
						}
						for _, k2 := range ks {
							if k2 != k && prop == "C08" {
								r.Fail("key-identity", "equal-tuples-different-keys", "%s projection %q (no .unit): ProjectValues gave %s for a measurement of a result that Project maps to %s", c.label, hp.expr.text, k2, k)
							}
						}
					}
				}
			}
			if ii == 0 && prop == "C08" {
				// (4) projections plus residue lose nothing
				var info strings.Builder
				fmt.Fprintf(&info, "cfg=%v;", sortedCfg(h))
				var nk []string
				for k := range w.nameKeys {
					nk = append(nk, k)
				}
				sort.Strings(nk)
				for _, k := range nk {
					fmt.Fprintf(&info, "%s=%q;", k, hExtract(h, k, w.nameKeys))
				}
				fmt.Fprintf(&info, "rest=%q;", hExtract(h, ".fullname", w.nameKeys))
				for _, e := range exprs {
					if e.unit {
						fmt.Fprintf(&info, "unit0=%q;", h.units[0])
					}
				}
				js, is := joint.String(), info.String()
				if prev, ok := jointByKeys[js]; ok && prev != is {
					r.Fail("lossless", "keys-agree-info-differs", "two results agree on all projection keys and the residue key but differ in file configuration / projected name keys / remaining name:\n%s\n%s", prev, is)
				}
				if prev, ok := jointByInfo[is]; ok && prev != js {
					r.Fail("lossless", "info-agrees-keys-differ", "two results with the same file configuration, projected name keys and remaining name (%s) differ in some key", is)
				}
				jointByKeys[js], jointByInfo[is] = is, js
			}
		}
	}
	primary := insts[0]
	all := append(append([]*hProj(nil), primary.projs...), primary.residue)
	coldTail := func() {
		if lastH != nil && T.Bool("cold-tail") {
			// one more result: the previous one again plus a never-seen file key with an explicitly
			// empty value. It adds a .config sub-field but maps onto existing keys, so whatever the
			// projections build lazily for their field list is cold when the sorters start.
			h := *lastH
			h.cfg = append(append([][2]string(nil), lastH.cfg...), [2]string{"zlast", ""})
			r.Logf("tail result: %q cfg=%v", h.name, h.cfg)
			c := &hCheck{r: r, prop: "tail"} // no API reads here: they would rebuild what must stay cold
			res := h.toResult()
			if ok, _ := primary.filter.Apply(res); ok {
				for _, hp := range all {
					if hp.expr.unit {
						for vi, k := range hp.proj.ProjectValues(res) {
							hp.observe(c, w, &h, k, res.Values[vi].Unit)
						}
					} else {
						hp.observe(c, w, &h, hp.proj.Project(res), "")
					}
				}
			}
			r.Hit("field added by a result that maps onto existing keys")
		}
	}
	if prop == "C08" {
		// concurrent readers after all projecting is done (documented as safe): NonSingularFields, Key.String and
		// Key.Get from several tasks at once must give what they give sequentially
		type seen struct{ nsf, str []string }
		var got []*seen
		if T.Intn(3, "concurrent-lane") == 0 {
			coldTail()
			sim.ResetProcessState() // concurrent callers start with cold package-level caches
			ntask := 2 + T.Intn(2, "ntasks")
			r.Bubble(t, 100000, func(s *sim.Sched) {
				for ti := 0; ti < ntask; ti++ {
					res := &seen{}
					got = append(got, res)
					s.Go(fmt.Sprintf("reader%d", ti), 1, func() {
						for _, hp := range all {
							var names []string
							for _, f := range NonSingularFields(hp.keys) {
								names = append(names, f.Name)
							}
							res.nsf = append(res.nsf, strings.Join(names, ","))
							var strs []string
							for _, k := range hp.keys {
								strs = append(strs, k.String())
							}
							res.str = append(res.str, strings.Join(strs, "|"))
						}
					})
				}
				s.Loop()
			})
			r.Hit("keys read concurrently by several tasks")
			for ti, g := range got {
				for pi, hp := range all {
					if pi >= len(g.nsf) {
						r.Fail("nonsingular", "concurrent-read-incomplete", "task %d did not finish", ti)
					}
					var names []string
					for _, f := range NonSingularFields(hp.keys) {
						names = append(names, f.Name)
					}
					var strs []string
					for _, k := range hp.keys {
						strs = append(strs, k.String())
					}
					if g.nsf[pi] != strings.Join(names, ",") {
						r.Fail("nonsingular", "concurrent-read-differs", "projection %q: NonSingularFields called by task %d concurrently with other readers gave [%s], sequentially [%s]", hp.expr.text, ti, g.nsf[pi], strings.Join(names, ","))
					}
					if g.str[pi] != strings.Join(strs, "|") {
						r.Fail("key-get", "concurrent-string-differs", "projection %q: Key.String called by task %d concurrently with other readers gave %q, sequentially %q", hp.expr.text, ti, g.str[pi], strings.Join(strs, "|"))
					}
				}
			}
		}
		// (2) again at the end: keys made before the field set grew
		for _, inst := range insts {
			c := &hCheck{r: r, prop: prop, label: fmt.Sprintf("[parse order %v]", inst.order)}
			for _, hp := range append(append([]*hProj(nil), inst.projs...), inst.residue) {
				fl := hp.flat()
				for _, k := range hp.keys {
					hp.checkGet(c, k, fl, hp.tuples[k])
				}
			}
		}
		// (5) NonSingularFields
		for _, hp := range all {
			nsfCheck(hp, true)
		}
		// ... after which the projections' field lists and every key still read as before
		for _, hp := range all {
			fl := hp.flat()
			c := &hCheck{r: r, prop: prop, label: "[after NonSingularFields]"}
			for _, k := range hp.keys {
				hp.checkGet(c, k, fl, hp.tuples[k])
			}
			hp.checkHeld(c)
		}
	} else {
		// concurrent readers: after all results have been projected, Less/SortKeys may be called from
		// several goroutines (as benchstat's cell goroutines do); every one of them must see the same order.
		// Runs before any sequential sort so that lazily built state is still cold.
		type sorted struct{ seq [][]Key }
		var got []*sorted
		if T.Intn(3, "readers-first") == 0 {
			// other readers of the same projections come first (what they build lazily is warm afterwards)
			for _, hp := range all {
				nsfCheck(hp, false)
			}
			r.Hit("NonSingularFields called before the keys are sorted")
		}
		if T.Intn(3, "concurrent-lane") == 0 {
			coldTail()
			sim.ResetProcessState() // concurrent callers start with cold package-level caches
			ntask := 2 + T.Intn(2, "ntasks")
			r.Bubble(t, 100000, func(s *sim.Sched) {
				for ti := 0; ti < ntask; ti++ {
					res := &sorted{}
					got = append(got, res)
					s.Go(fmt.Sprintf("sorter%d", ti), 1, func() {
						for _, hp := range all {
							ks := append([]Key(nil), hp.keys...)
							if len(ks) > 40 {
								ks = ks[:40]
							}
							SortKeys(ks)
							res.seq = append(res.seq, ks)
						}
					})
				}
				s.Loop()
			})
			r.Hit("keys sorted concurrently by several tasks")
		}
		for _, hp := range all {
			hp.checkOrder(&hCheck{r: r, prop: prop}, T)
		}
		for ti, g := range got {
			for pi, hp := range all {
				if pi >= len(g.seq) {
					r.Fail("sort", "concurrent-sort-incomplete", "task %d did not finish sorting", ti)
				}
				want := append([]Key(nil), hp.keys...)
				if len(want) > 40 {
					want = want[:40]
				}
				SortKeys(want)
				for i := range want {
					if g.seq[pi][i] != want[i] {
						r.Fail("sort", "concurrent-sort-differs", "projection %q: SortKeys run by task %d concurrently with other sorters gave %v, sequentially %v", hp.expr.text, ti, g.seq[pi], want)
					}
				}
			}
		}
	}
	nkeys := 0
	for _, hp := range all {
		nkeys += len(hp.keys)
	}
	r.StateHash = sim.HashStr(fmt.Sprint(len(exprs), projected, nkeys, len(jointByInfo)))
	r.Nontrivial = projected >= 2 && nkeys > len(all)
}

func sortedCfg(h *hResult) []string {
	var out []string
	for k, v := range h.cfgMap {
		if v != "" && !h.internal[k] { // a missing value counts as empty; internal configuration is not file configuration
			out = append(out, k+"="+v)
		}
	}
	sort.Strings(out)
	return out
}

var hAssume = []string{
	"no threads, clock or I/O exist for this property: the simulator owns the operation history (order of Parse calls on one ProjectionParser, order and content of the result stream over a growing key universe)",
	"ProjectionParser protocol as documented: all expressions are parsed, then Residue() is taken, then results are projected",
	"benchmark names are well formed with distinct sub-name keys; all configuration is file configuration",
	"@num values are decimals with an optional k K M G T P E Z Y (i) (B) suffix, NaN, inf, or words without digits; ties among numerically equal spellings are not prescribed",
	"when the missing value of a .config key first seen late counts as observed is not prescribed",
}

var c08Engine = &sim.Engine{
	Prop: "C08", Level: "exploration",
	Rule: "one run = 2-5 projection expressions parsed on one ProjectionParser in every order (separate parser instance per order, <= 24 orders; 12 drawn orders beyond four expressions) and a seeded stream of 1-60 results over a growing universe of file keys and sub-name keys, projected through all projections and the residue (results reused in place, results without measurements, rejected Parse calls in between, slices returned by ProjectValues held by the caller, NonSingularFields/Key.String calls between results, now and then without applying the filter that fixed value lists imply); key identity, Key.Get, flattened fields, parse-order independence of the exclusions, losslessness and NonSingularFields are checked against a reference model after every operation; " +
		"non-trivial = at least two results projected and more keys than projections; distinct = distinct (expression count, results, keys, information classes)",
	Assumptions: hAssume,
	Real:        []string{"benchproc.ProjectionParser, Projection, Key, NonSingularFields", "benchproc.Filter (fixed value lists)", "benchfmt.Result/Name"},
	Stub:        []string{"nothing is stubbed; the history (parse order, result stream) is drawn from the tape"},
	Run:         func(t *testing.T, r *sim.Run, tier string) { r.Lane = "history"; hRun(t, r, "C08") },
}

var c09Engine = &sim.Engine{
	Prop: "C09", Level: "exploration",
	Rule: "same histories as C08 (one parse order); on the distinct keys of every projection (<= 40) Key.Less is checked for irreflexivity, asymmetry, totality (all pairs) and transitivity (all triples) and against the documented per-field order in the first differing flattened field (first observation incl. .config sub-fields, alpha, num, fixed list); SortKeys over 5 drawn arrangements must give one sorted permutation; " +
		"non-trivial = at least two results projected and more keys than projections; distinct = distinct (expression count, results, keys)",
	Assumptions: hAssume,
	Real:        []string{"benchproc.Key.Less, SortKeys, ProjectionParser, Projection"},
	Stub:        []string{"nothing is stubbed; the history (parse order, result stream, arrangements to sort) is drawn from the tape"},
	Run:         func(t *testing.T, r *sim.Run, tier string) { r.Lane = "history"; hRun(t, r, "C09") },
}

func TestVerifWorker(t *testing.T) {
	sim.WorkerMain(t, c08Engine, c09Engine)
}

var _ = math.Pow

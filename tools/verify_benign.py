#!/usr/bin/env python3
"""verify_benign.py <worktree> <ID>: for each seeded/b<i> in the scratch worktree confirm that the patch applies and
the existing suite passes with it, then copy it to /verif/benign/<ID>-b<i>/."""
import json, os, shutil, subprocess, sys
wt, pid = sys.argv[1], sys.argv[2]
env = dict(os.environ, GOFLAGS="-mod=mod", GOPROXY="off", GOSUMDB="off", GOTOOLCHAIN="local")
def sh(cmd):
    return subprocess.run(cmd, shell=True, cwd=wt, env=env, stdout=subprocess.PIPE, stderr=subprocess.STDOUT, text=True)
sh("git checkout -q -- . && git checkout -q --detach main")
head = sh("git rev-parse --short HEAD").stdout.strip()
for m in sorted(os.listdir(os.path.join(wt, "seeded"))):
    d = os.path.join(wt, "seeded", m)
    if not os.path.isfile(os.path.join(d, "patch.diff")):
        continue
    meta = json.load(open(os.path.join(d, "meta.json")))
    p = sh("git apply seeded/%s/patch.diff" % m)
    if p.returncode != 0:
        print(pid, m, "patch does not apply:", p.stdout[-300:]); continue
    p = sh("go build ./... && go test -vet=off -count=1 ./... 2>&1 | grep -v '^ok\\|no test files' | head -20")
    ok = p.stdout.strip() == ""
    sh("git checkout -q -- .")
    print(pid, m, "SUITE-PASSES" if ok else "SUITE-FAILS: " + p.stdout[-500:])
    if ok:
        out = os.path.join("/verif/benign", "%s-%s" % (pid, m))
        os.makedirs(out, exist_ok=True)
        shutil.copy(os.path.join(d, "patch.diff"), out)
        meta["property"] = pid
        meta["verified_by_me"] = {"repo_head": head, "suite_with_patch": "pass"}
        json.dump(meta, open(os.path.join(out, "meta.json"), "w"), indent=1)

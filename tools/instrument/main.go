// Command instrument writes instrumented copies of golang/perf packages for
// the deterministic-simulation checks (see /verif/DESIGN.md section 2.3):
// goroutine registration and yield points around go/chan/sync operations and
// shared-state writes, and `range m` over maps rewritten to
// `range verifsim.Map(m)`. It reads the CURRENT tree, so an edited tree is
// what gets instrumented. Output: JSON {"replace": {orig: copy}, ...}.
package main

import (
	"bytes"
	"encoding/json"
	"flag"
	"fmt"
	"go/ast"
	"go/format"
	"go/token"
	"go/types"
	"os"
	"path/filepath"
	"strings"

	"golang.org/x/tools/go/ast/astutil"
	"golang.org/x/tools/go/packages"
)

const simPath = "verif.local/sim"

type inst struct {
	fset    *token.FileSet
	info    *types.Info
	pkg     *types.Package
	goDepth map[ast.Node]bool // block lists lexically inside a go literal
	changed bool
	stats   map[string]int
	unins   *[]string
	repo    string
	idN     int
	gen     map[ast.Stmt]bool
}

func (in *inst) site(p token.Pos) string {
	pos := in.fset.Position(p)
	rel, err := filepath.Rel(in.repo, pos.Filename)
	if err != nil {
		rel = pos.Filename
	}
	return fmt.Sprintf("%s:%d", rel, pos.Line)
}

func call(fn string, args ...ast.Expr) *ast.CallExpr {
	return &ast.CallExpr{Fun: &ast.SelectorExpr{X: ast.NewIdent("verifsim"), Sel: ast.NewIdent(fn)}, Args: args}
}

func strLit(s string) ast.Expr { return &ast.BasicLit{Kind: token.STRING, Value: fmt.Sprintf("%q", s)} }

func (in *inst) yield(fn string, p token.Pos) ast.Stmt {
	in.stats[fn]++
	return &ast.ExprStmt{X: call(fn, strLit(in.site(p)))}
}

// isSyncRecv reports whether the call is a method call on a type from package
// sync or sync/atomic, and returns the method name and the type name.
func (in *inst) syncMethod(c *ast.CallExpr) (method, typ string, ok bool) {
	sel, isSel := c.Fun.(*ast.SelectorExpr)
	if !isSel {
		return
	}
	s := in.info.Selections[sel]
	if s == nil || s.Kind() != types.MethodVal {
		return
	}
	fn, _ := s.Obj().(*types.Func)
	if fn == nil || fn.Pkg() == nil {
		return
	}
	if p := fn.Pkg().Path(); p != "sync" && p != "sync/atomic" {
		return
	}
	recv := fn.Type().(*types.Signature).Recv().Type()
	if ptr, isPtr := recv.(*types.Pointer); isPtr {
		recv = ptr.Elem()
	}
	tn := ""
	if n, isNamed := recv.(*types.Named); isNamed {
		tn = n.Obj().Name()
	}
	return fn.Name(), tn, true
}

type shallow struct {
	chanOp, syncOp, lock, unlock, onceDo, write, terminates bool
}

// shallowScan inspects the parts of s that are not nested statement lists or
// function literals.
func (in *inst) shallowScan(s ast.Stmt) (f shallow) {
	var visitExpr func(n ast.Node) bool
	visitExpr = func(n ast.Node) bool {
		switch n := n.(type) {
		case *ast.FuncLit, *ast.BlockStmt, *ast.CaseClause, *ast.CommClause:
			return false
		case *ast.SendStmt:
			f.chanOp = true
		case *ast.UnaryExpr:
			if n.Op == token.ARROW {
				f.chanOp = true
			}
		case *ast.CallExpr:
			if m, tn, ok := in.syncMethod(n); ok {
				switch {
				case m == "Lock" || m == "RLock":
					f.lock = true
				case m == "Unlock" || m == "RUnlock":
					f.unlock = true
				case tn == "Once" && m == "Do":
					f.onceDo = true
				default:
					f.syncOp = true
				}
			}
			if id, ok := n.Fun.(*ast.Ident); ok && id.Name == "panic" {
				f.terminates = true
			}
			// a *rand.Rand is mutable state that is not safe for concurrent use: using it is a shared-state write
			if sel, ok := n.Fun.(*ast.SelectorExpr); ok {
				if sl := in.info.Selections[sel]; sl != nil && sl.Kind() == types.MethodVal {
					if fn, ok := sl.Obj().(*types.Func); ok && fn.Pkg() != nil && (fn.Pkg().Path() == "math/rand" || fn.Pkg().Path() == "math/rand/v2") {
						f.write = true
					}
				}
			}
		}
		return true
	}
	isShared := func(e ast.Expr) bool {
		for {
			switch x := e.(type) {
			case *ast.IndexExpr:
				e = x.X
				continue
			case *ast.ParenExpr:
				e = x.X
				continue
			case *ast.StarExpr:
				return true
			case *ast.SelectorExpr:
				if s := in.info.Selections[x]; s != nil && s.Kind() == types.FieldVal {
					return true
				}
				if obj := in.info.Uses[x.Sel]; obj != nil {
					if v, ok := obj.(*types.Var); ok && v.Parent() == v.Pkg().Scope() {
						return true
					}
				}
				return false
			case *ast.Ident:
				if obj := in.info.Uses[x]; obj != nil {
					if v, ok := obj.(*types.Var); ok && v.Pkg() != nil && v.Parent() == v.Pkg().Scope() {
						return true
					}
				}
				return false
			default:
				return false
			}
		}
	}
	switch s := s.(type) {
	case *ast.SelectStmt:
		f.chanOp = true
		return
	case *ast.ReturnStmt, *ast.BranchStmt:
		f.terminates = true
	case *ast.AssignStmt:
		for _, l := range s.Lhs {
			if _, isIndex := l.(*ast.IndexExpr); isIndex || s.Tok != token.DEFINE {
				if isShared(l) {
					f.write = true
				}
			}
		}
	case *ast.IncDecStmt:
		if isShared(s.X) {
			f.write = true
		}
	case *ast.RangeStmt:
		if t := in.info.TypeOf(s.X); t != nil {
			if _, ok := t.Underlying().(*types.Chan); ok {
				f.chanOp = true
			}
		}
	}
	// walk shallow children
	switch s := s.(type) {
	case *ast.IfStmt:
		if s.Init != nil {
			g := in.shallowScan(s.Init)
			f.chanOp = f.chanOp || g.chanOp
			f.syncOp = f.syncOp || g.syncOp
			f.write = f.write || g.write
		}
		ast.Inspect(s.Cond, visitExpr)
	case *ast.ForStmt:
		if s.Cond != nil {
			ast.Inspect(s.Cond, visitExpr)
		}
	case *ast.RangeStmt:
		ast.Inspect(s.X, visitExpr)
	case *ast.SwitchStmt:
		if s.Init != nil {
			ast.Inspect(s.Init, visitExpr)
		}
		if s.Tag != nil {
			ast.Inspect(s.Tag, visitExpr)
		}
	case *ast.TypeSwitchStmt, *ast.BlockStmt, *ast.LabeledStmt, *ast.GoStmt, *ast.DeferStmt:
	default:
		ast.Inspect(s, visitExpr)
	}
	return
}

// simLock rewrites the statement `x.Lock()` / `x.RLock()` in place into
// verifsim.MutexLock(&x, site) / MutexRLock; reports whether it did.
func (in *inst) simLock(s ast.Stmt) bool {
	es, ok := s.(*ast.ExprStmt)
	if !ok {
		return false
	}
	c, ok := es.X.(*ast.CallExpr)
	if !ok || len(c.Args) != 0 {
		return false
	}
	m, tn, ok := in.syncMethod(c)
	if !ok || (tn != "Mutex" && tn != "RWMutex") || (m != "Lock" && m != "RLock") {
		return false
	}
	recv := c.Fun.(*ast.SelectorExpr).X
	var arg ast.Expr = recv
	if t := in.info.TypeOf(recv); t != nil {
		if _, isPtr := t.Underlying().(*types.Pointer); !isPtr {
			arg = &ast.UnaryExpr{Op: token.AND, X: recv}
		}
	}
	fn := "MutexLock"
	if m == "RLock" {
		fn = "MutexRLock"
	}
	es.X = call(fn, arg, strLit(in.site(s.Pos())))
	return true
}

// simOnce rewrites the statement `x.Do(f)` on a sync.Once in place into verifsim.OnceDo(&x, f, site).
func (in *inst) simOnce(s ast.Stmt) bool {
	es, ok := s.(*ast.ExprStmt)
	if !ok {
		return false
	}
	c, ok := es.X.(*ast.CallExpr)
	if !ok || len(c.Args) != 1 {
		return false
	}
	m, tn, ok := in.syncMethod(c)
	if !ok || tn != "Once" || m != "Do" {
		return false
	}
	recv := c.Fun.(*ast.SelectorExpr).X
	var arg ast.Expr = recv
	if t := in.info.TypeOf(recv); t != nil {
		if _, isPtr := t.Underlying().(*types.Pointer); !isPtr {
			arg = &ast.UnaryExpr{Op: token.AND, X: recv}
		}
	}
	es.X = call("OnceDo", arg, c.Args[0], strLit(in.site(s.Pos())))
	return true
}

func (in *inst) rewriteGo(g *ast.GoStmt) []ast.Stmt {
	in.idN++
	idName := fmt.Sprintf("__verifID%d", in.idN)
	site := in.site(g.Pos())
	pre := []ast.Stmt{&ast.AssignStmt{Lhs: []ast.Expr{ast.NewIdent(idName)}, Tok: token.DEFINE, Rhs: []ast.Expr{call("Spawn", strLit(site))}}}
	enter := &ast.ExprStmt{X: call("Enter", ast.NewIdent(idName))}
	exit := &ast.DeferStmt{Call: &ast.CallExpr{Fun: &ast.FuncLit{Type: &ast.FuncType{Params: &ast.FieldList{}}, Body: &ast.BlockStmt{List: []ast.Stmt{
		&ast.ExprStmt{X: call("ExitRecover", ast.NewIdent(idName), &ast.CallExpr{Fun: ast.NewIdent("recover")})}}}}}}
	in.gen[enter], in.gen[exit] = true, true
	if lit, ok := g.Call.Fun.(*ast.FuncLit); ok {
		lit.Body.List = append([]ast.Stmt{enter, exit}, lit.Body.List...)
	} else {
		// go f(a, b) -> evaluate f and its arguments now, call in a registered literal
		var lhs []ast.Expr
		var rhs []ast.Expr
		fName := fmt.Sprintf("__verifF%d", in.idN)
		lhs = append(lhs, ast.NewIdent(fName))
		rhs = append(rhs, g.Call.Fun)
		var args []ast.Expr
		for i, a := range g.Call.Args {
			n := fmt.Sprintf("__verifA%d_%d", in.idN, i)
			lhs = append(lhs, ast.NewIdent(n))
			rhs = append(rhs, a)
			args = append(args, ast.NewIdent(n))
		}
		pre = append(pre, &ast.AssignStmt{Lhs: lhs, Tok: token.DEFINE, Rhs: rhs})
		inner := &ast.CallExpr{Fun: ast.NewIdent(fName), Args: args, Ellipsis: g.Call.Ellipsis}
		body := &ast.BlockStmt{List: []ast.Stmt{enter, exit, &ast.ExprStmt{X: inner}}}
		g.Call = &ast.CallExpr{Fun: &ast.FuncLit{Type: &ast.FuncType{Params: &ast.FieldList{}}, Body: body}}
		in.stats["go-nonliteral"]++
	}
	in.stats["go"]++
	blk := &ast.BlockStmt{List: append(pre, g)}
	return []ast.Stmt{in.yield("Yield", g.Pos()), blk, in.yield("Yield", g.Pos())}
}

// terminating implements the "terminating statement" rules of the Go specification (conservatively).
func terminating(s ast.Stmt) bool {
	lastTerm := func(list []ast.Stmt) bool {
		return len(list) > 0 && terminating(list[len(list)-1])
	}
	hasBreak := func(n ast.Node) bool { // an unlabelled break that refers to n (or any labelled break: conservative)
		found := false
		var walk func(x ast.Node, top bool)
		walk = func(x ast.Node, top bool) {
			ast.Inspect(x, func(y ast.Node) bool {
				if y == nil || found {
					return false
				}
				if y != x {
					switch y.(type) {
					case *ast.ForStmt, *ast.RangeStmt, *ast.SwitchStmt, *ast.TypeSwitchStmt, *ast.SelectStmt:
						// unlabelled breaks inside refer to the inner statement; labelled ones may refer to n
						ast.Inspect(y, func(z ast.Node) bool {
							if b, ok := z.(*ast.BranchStmt); ok && b.Tok == token.BREAK && b.Label != nil {
								found = true
							}
							return !found
						})
						return false
					case *ast.FuncLit:
						return false
					}
				}
				if b, ok := y.(*ast.BranchStmt); ok && b.Tok == token.BREAK {
					found = true
				}
				return !found
			})
		}
		walk(n, true)
		return found
	}
	switch s := s.(type) {
	case *ast.ReturnStmt:
		return true
	case *ast.BranchStmt:
		return s.Tok == token.GOTO
	case *ast.ExprStmt:
		if c, ok := s.X.(*ast.CallExpr); ok {
			if id, ok := c.Fun.(*ast.Ident); ok && id.Name == "panic" {
				return true
			}
		}
	case *ast.BlockStmt:
		return lastTerm(s.List)
	case *ast.IfStmt:
		return s.Else != nil && lastTerm(s.Body.List) && terminating(s.Else)
	case *ast.ForStmt:
		return s.Cond == nil && !hasBreak(s.Body)
	case *ast.LabeledStmt:
		return terminating(s.Stmt)
	case *ast.SwitchStmt, *ast.TypeSwitchStmt:
		var body *ast.BlockStmt
		if sw, ok := s.(*ast.SwitchStmt); ok {
			body = sw.Body
		} else {
			body = s.(*ast.TypeSwitchStmt).Body
		}
		def := false
		for _, c := range body.List {
			cc := c.(*ast.CaseClause)
			if cc.List == nil {
				def = true
			}
			if len(cc.Body) == 0 {
				return false
			}
			last := cc.Body[len(cc.Body)-1]
			if b, ok := last.(*ast.BranchStmt); ok && b.Tok == token.FALLTHROUGH {
				continue
			}
			if !terminating(last) {
				return false
			}
		}
		return def && !hasBreak(body)
	case *ast.SelectStmt:
		for _, c := range s.Body.List {
			if !lastTerm(c.(*ast.CommClause).Body) {
				return false
			}
		}
		return !hasBreak(s.Body)
	}
	return false
}

func (in *inst) rewriteList(list []ast.Stmt, inGo bool) []ast.Stmt {
	var out []ast.Stmt
	for _, s := range list {
		if in.gen[s] {
			out = append(out, s)
			continue
		}
		switch s.(type) {
		case *ast.CaseClause, *ast.CommClause:
			// the body of a switch or select is a list of clauses: nothing may stand between them
			// (their own bodies are lists of their own)
			out = append(out, s)
			continue
		}
		core := s
		for {
			if l, ok := core.(*ast.LabeledStmt); ok {
				core = l.Stmt
				continue
			}
			break
		}
		// map ranges
		if rs, ok := core.(*ast.RangeStmt); ok {
			if t := in.info.TypeOf(rs.X); t != nil {
				if _, isMap := t.Underlying().(*types.Map); isMap {
					rs.X = call("Map", rs.X)
					in.stats["map-range"]++
					in.changed = true
				}
			}
		}
		if g, ok := core.(*ast.GoStmt); ok && core == s {
			out = append(out, in.rewriteGo(g)...)
			in.changed = true
			continue
		} else if ok {
			*in.unins = append(*in.unins, in.site(g.Pos())+" (labeled go statement)")
		}
		f := in.shallowScan(core)
		if terminating(core) {
			f.terminates = true // nothing may follow a terminating statement at the end of a function body
		}
		if d, ok := core.(*ast.DeferStmt); ok {
			if m, _, isSync := in.syncMethod(d.Call); isSync && (m == "Unlock" || m == "RUnlock") {
				d.Call = &ast.CallExpr{Fun: &ast.FuncLit{Type: &ast.FuncType{Params: &ast.FieldList{}}, Body: &ast.BlockStmt{List: []ast.Stmt{
					&ast.ExprStmt{X: d.Call}, &ast.ExprStmt{X: call("MutexUnlocked")}}}}}
				in.stats["defer-unlock"]++
				in.changed = true
				out = append(out, s)
				continue
			}
		}
		switch {
		case f.lock && in.simLock(core):
			// x.Lock() became verifsim.MutexLock(&x, site): a TryLock loop over yield points,
			// so that tasks may park inside critical sections without stalling quiescence detection
			out = append(out, s)
			in.stats["lock"]++
			in.changed = true
		case f.lock:
			out = append(out, in.yield("Yield", s.Pos()), s, &ast.ExprStmt{X: call("LockEnter")})
			in.stats["lock-unsimulated"]++
			in.changed = true
		case f.unlock:
			out = append(out, s, &ast.ExprStmt{X: call("MutexUnlocked")}, in.yield("Yield", s.Pos()))
			in.changed = true
		case f.onceDo && in.simOnce(core):
			out = append(out, s)
			in.stats["once-do"]++
			in.changed = true
		case f.onceDo:
			out = append(out, in.yield("Yield", s.Pos()), &ast.ExprStmt{X: call("LockEnter")}, s, &ast.ExprStmt{X: call("LockExit")})
			if !f.terminates {
				out = append(out, in.yield("Yield", s.Pos()))
			}
			in.stats["once-do"]++
			in.changed = true
		case f.chanOp || f.syncOp:
			out = append(out, in.yield("Yield", s.Pos()), s)
			if !f.terminates {
				out = append(out, in.yield("Yield", s.Pos()))
			}
			in.changed = true
		case f.write:
			out = append(out, in.yield("YieldW", s.Pos()), s)
			in.changed = true
		case inGo:
			out = append(out, in.yield("Yield", s.Pos()), s)
			in.changed = true
		default:
			out = append(out, s)
		}
	}
	return out
}

func (in *inst) file(f *ast.File) {
	ast.Inspect(f, func(n ast.Node) bool {
		c, ok := n.(*ast.CallExpr)
		if !ok {
			return true
		}
		if sel, ok := c.Fun.(*ast.SelectorExpr); ok && sel.Sel.Name == "GOMAXPROCS" {
			if id, ok := sel.X.(*ast.Ident); ok {
				if pn, ok := in.info.Uses[id].(*types.PkgName); ok && pn.Imported().Path() == "runtime" {
					c.Args = []ast.Expr{&ast.CallExpr{Fun: &ast.SelectorExpr{X: id, Sel: sel.Sel}, Args: c.Args}, c.Args[0]}
					c.Fun = &ast.SelectorExpr{X: ast.NewIdent("verifsim"), Sel: ast.NewIdent("GOMAXPROCS")}
					in.stats["gomaxprocs"]++
					in.changed = true
					return false
				}
			}
		}
		return true
	})
	// which lists are lexically inside a go literal; which functions contain go statements
	type frame struct {
		n    ast.Node
		inGo bool
	}
	inGo := map[ast.Node]bool{}
	var lists []ast.Node
	var stack []frame
	hasGo := map[*ast.FuncDecl]bool{}
	var curDecl *ast.FuncDecl
	ast.Inspect(f, func(n ast.Node) bool {
		if n == nil {
			stack = stack[:len(stack)-1]
			return true
		}
		parentGo := len(stack) > 0 && stack[len(stack)-1].inGo
		me := parentGo
		switch x := n.(type) {
		case *ast.FuncDecl:
			curDecl = x
		case *ast.GoStmt:
			if curDecl != nil {
				hasGo[curDecl] = true
			}
			if _, ok := x.Call.Fun.(*ast.FuncLit); ok {
				me = true
			}
		case *ast.BlockStmt, *ast.CaseClause, *ast.CommClause:
			lists = append(lists, n)
			inGo[n] = parentGo
		}
		stack = append(stack, frame{n, me})
		return true
	})
	for _, n := range lists {
		switch x := n.(type) {
		case *ast.BlockStmt:
			x.List = in.rewriteList(x.List, inGo[n])
		case *ast.CaseClause:
			x.Body = in.rewriteList(x.Body, inGo[n])
		case *ast.CommClause:
			x.Body = in.rewriteList(x.Body, inGo[n])
		}
	}
	for d := range hasGo {
		if d.Body != nil {
			d.Body.List = append([]ast.Stmt{in.yield("Yield", d.Pos())}, d.Body.List...)
			in.changed = true
		}
	}
}

func main() {
	repo := flag.String("repo", "/repo", "repository root")
	out := flag.String("out", "", "output directory")
	flag.Parse()
	var patterns []string
	// "reset:<dir>": the package only gets the per-run reset hook for its process-wide state (pools, caches); its
	// code is left as it is (no yields in hot inner loops that no other task shares)
	resetOnly := map[string]bool{}
	for _, p := range flag.Args() {
		if strings.HasPrefix(p, "reset:") {
			p = strings.TrimPrefix(p, "reset:")
			resetOnly[filepath.Join(*repo, p)] = true
		}
		patterns = append(patterns, "./"+p)
	}
	cfg := &packages.Config{Mode: packages.NeedName | packages.NeedFiles | packages.NeedCompiledGoFiles | packages.NeedSyntax | packages.NeedTypes | packages.NeedTypesInfo | packages.NeedImports | packages.NeedDeps,
		Dir: *repo, Env: append(os.Environ(), "GOFLAGS=-mod=mod", "GOPROXY=off", "GOSUMDB=off")}
	pkgs, err := packages.Load(cfg, patterns...)
	if err != nil {
		fmt.Fprintln(os.Stderr, "load:", err)
		os.Exit(2)
	}
	if packages.PrintErrors(pkgs) > 0 {
		os.Exit(2)
	}
	replace := map[string]string{}
	stats := map[string]int{}
	unins := []string{}
	resetVars := []string{}
	unreset := []string{}
	// package-level variables of the instrumented packages that are assigned, incremented or have their
	// address taken anywhere in the instrumented packages (also across packages): process-wide state
	instrumented := map[*types.Package]bool{}
	for _, p := range pkgs {
		instrumented[p.Types] = true
	}
	written := map[*types.Var]bool{}
	for _, p := range pkgs {
		p := p
		isGlobal := func(o types.Object) (*types.Var, bool) {
			v, ok := o.(*types.Var)
			if !ok || v.Pkg() == nil || !instrumented[v.Pkg()] || v.Parent() != v.Pkg().Scope() {
				return nil, false
			}
			return v, true
		}
		for _, f := range p.Syntax {
			ast.Inspect(f, func(n ast.Node) bool {
				root := func(e ast.Expr) {
					for {
						switch x := e.(type) {
						case *ast.IndexExpr:
							e = x.X
						case *ast.SelectorExpr:
							if v, ok := isGlobal(p.TypesInfo.Uses[x.Sel]); ok {
								written[v] = true
								return
							}
							e = x.X
						case *ast.ParenExpr:
							e = x.X
						case *ast.StarExpr:
							e = x.X
						case *ast.Ident:
							if v, ok := isGlobal(p.TypesInfo.Uses[x]); ok {
								written[v] = true
							}
							return
						default:
							return
						}
					}
				}
				switch x := n.(type) {
				case *ast.AssignStmt:
					if x.Tok != token.DEFINE {
						for _, l := range x.Lhs {
							root(l)
						}
					}
				case *ast.IncDecStmt:
					root(x.X)
				case *ast.UnaryExpr:
					if x.Op == token.AND {
						root(x.X) // address taken: may be written through the pointer
					}
				case *ast.CallExpr:
					// a method with a pointer receiver called on (a field of) a package-level variable may change it
					if sel, ok := x.Fun.(*ast.SelectorExpr); ok {
						if sl := p.TypesInfo.Selections[sel]; sl != nil && sl.Kind() == types.MethodVal {
							if fn, ok := sl.Obj().(*types.Func); ok {
								if recv := fn.Type().(*types.Signature).Recv(); recv != nil {
									if _, isPtr := recv.Type().(*types.Pointer); isPtr {
										root(sel.X)
									}
								}
							}
						}
					}
				}
				return true
			})
		}
	}
	for _, p := range pkgs {
		for i, f := range p.Syntax {
			_ = i
			name := p.Fset.Position(f.Package).Filename
			if strings.HasSuffix(name, "_test.go") || resetOnly[filepath.Dir(name)] {
				continue
			}
			in := &inst{fset: p.Fset, info: p.TypesInfo, pkg: p.Types, stats: stats, unins: &unins, repo: *repo, gen: map[ast.Stmt]bool{}}
			in.file(f)
			if !in.changed {
				continue
			}
			astutil.AddNamedImport(p.Fset, f, "verifsim", simPath)
			var buf bytes.Buffer
			if err := format.Node(&buf, p.Fset, f); err != nil {
				fmt.Fprintln(os.Stderr, "print:", name, err)
				os.Exit(2)
			}
			rel, _ := filepath.Rel(*repo, name)
			dst := filepath.Join(*out, strings.ReplaceAll(rel, "/", "__"))
			if err := os.WriteFile(dst, buf.Bytes(), 0o644); err != nil {
				fmt.Fprintln(os.Stderr, err)
				os.Exit(2)
			}
			replace[name] = dst
			stats["files"]++
		}
		// process-wide caches: generate a reset hook so that every simulated run starts cold
		var resets []string
		for _, f := range p.Syntax {
			if strings.HasSuffix(p.Fset.Position(f.Package).Filename, "_test.go") {
				continue
			}
			for _, d := range f.Decls {
				gd, ok := d.(*ast.GenDecl)
				if !ok || gd.Tok != token.VAR {
					continue
				}
				for _, sp := range gd.Specs {
					vs := sp.(*ast.ValueSpec)
					for i, n := range vs.Names {
						obj, _ := p.TypesInfo.Defs[n].(*types.Var)
						if obj == nil || n.Name == "_" {
							continue
						}
						if named, ok := obj.Type().(*types.Named); ok && named.Obj().Pkg() != nil && named.Obj().Pkg().Path() == "sync" {
							switch named.Obj().Name() {
							case "Map":
								resets = append(resets, n.Name+".Clear()")
								continue
							case "Pool":
								resets = append(resets, "verifsim.DrainPools() // "+n.Name)
								continue
							case "Once":
								// what it guards is restored to its state after package initialisation, so it has to run again
								resets = append(resets, "verifsim.Zero(&"+n.Name+")")
								continue
							case "Mutex", "RWMutex", "WaitGroup":
								continue // no observable history once quiescent
							}
						}
						if written[obj] {
							if _, isMap := obj.Type().Underlying().(*types.Map); !isMap || len(vs.Values) == 0 {
								// package-level state that is written at run time: restore the value it had when package
								// initialisation finished (its initialiser, or what an init function computed; the zero value otherwise)
								resets = append(resets, "SNAPSHOT "+n.Name)
								continue
							}
						}
						if _, isMap := obj.Type().Underlying().(*types.Map); isMap && i < len(vs.Values) {
							switch v := vs.Values[i].(type) {
							case *ast.CallExpr:
								if id, ok := v.Fun.(*ast.Ident); ok && id.Name == "make" {
									resets = append(resets, "verifsim.ClearMap("+n.Name+")")
								}
							case *ast.CompositeLit:
								if len(v.Elts) == 0 {
									resets = append(resets, "verifsim.ClearMap("+n.Name+")")
								}
							}
						}
					}
				}
			}
		}
		if len(resets) > 0 && len(p.GoFiles) > 0 {
			dir := filepath.Dir(p.GoFiles[0])
			src := "//go:build verif\n\npackage " + p.Name + "\n\nimport verifsim \"" + simPath + "\"\n\nfunc init() {\n"
			for _, r := range resets {
				if strings.HasPrefix(r, "SNAPSHOT ") {
					src += "\tverifsim.RegisterReset(verifsim.DeepSnapshot(&" + strings.TrimPrefix(r, "SNAPSHOT ") + "))\n"
					resetVars = append(resetVars, p.PkgPath+"."+r)
				}
			}
			src += "\tverifsim.RegisterReset(func() {\n"
			for _, r := range resets {
				if !strings.HasPrefix(r, "SNAPSHOT ") {
					src += "\t\t" + r + "\n"
					resetVars = append(resetVars, p.PkgPath+"."+r)
				}
			}
			src += "\t})\n}\n"
			rel, _ := filepath.Rel(*repo, dir)
			dst := filepath.Join(*out, strings.ReplaceAll(rel, "/", "__")+"__zz_verifreset.go")
			if err := os.WriteFile(dst, []byte(src), 0o644); err != nil {
				fmt.Fprintln(os.Stderr, err)
				os.Exit(2)
			}
			replace[filepath.Join(dir, "zz_verifreset.go")] = dst
		}
	}
	json.NewEncoder(os.Stdout).Encode(map[string]any{"replace": replace, "uninstrumented": unins, "stats": stats, "reset_vars": resetVars, "unreset_vars": unreset})
}

#!/usr/bin/env python3
"""coverage.py <PROP> [seconds] [engine]: statement coverage of golang/perf's own packages reached by one property's
harness (development aid, not a registered check). Builds the engine with -cover over the overlay, runs one worker
for the given budget and prints, per anchored file, the blocks never executed (line numbers refer to the
instrumented copy that the overlay substitutes, path printed alongside)."""
import sys, os, json, shutil, subprocess, tempfile, importlib.machinery, importlib.util, re
loader = importlib.machinery.SourceFileLoader("check", "/verif/check")
spec = importlib.util.spec_from_loader("check", loader); m = importlib.util.module_from_spec(spec); loader.exec_module(m)
prop = sys.argv[1]
secs = float(sys.argv[2]) if len(sys.argv) > 2 else 20
P = m.PROPS[prop]
engine = sys.argv[3] if len(sys.argv) > 3 else P["engine"]
scratch = tempfile.mkdtemp(prefix="verif-cov-")
try:
    ov, _, _ = m.make_overlay(engine, scratch)
    e = m.ENGINES[engine]
    out = os.path.join(scratch, "cov.test")
    modfile = os.path.join(scratch, "go.mod")
    open(modfile, "w").write(open(os.path.join(m.REPO, "go.mod")).read() + "\nrequire verif.local/sim v0.0.0\n\nreplace verif.local/sim => %s\n" % os.path.join(m.VERIF, "sim"))
    shutil.copy(os.path.join(m.REPO, "go.sum"), os.path.join(scratch, "go.sum"))
    # the cover tool reads sources from disk, not through -overlay: materialise the overlay in a scratch copy of the repository
    crepo = os.path.join(scratch, "repo")
    subprocess.run(["rsync", "-a", "--exclude", ".git", m.REPO + "/", crepo + "/"], check=True)
    rep0 = json.load(open(ov))["Replace"]
    for dst, src in rep0.items():
        d = os.path.join(crepo, os.path.relpath(dst, m.REPO))
        os.makedirs(os.path.dirname(d), exist_ok=True)
        shutil.copy(src, d)
    open(os.path.join(crepo, "go.mod"), "w").write(open(modfile).read())
    cmd = [m.GO, "test", "-c", "-cover", "-coverpkg", "golang.org/x/perf/...", "-tags", "verif", "-vet=off", "-o", out, "./" + e["pkg"]]
    m.run(cmd, cwd=crepo, timeout=1800)
    job = dict(mode="run", prop=prop, tier="quick", seed=int(os.environ.get("VERIF_SEED", "1")), worker=0, nworkers=1, budget_s=secs, max_runs=0,
               out=os.path.join(scratch, "res.json"), replay_dir=scratch, known=[], recheck_every=1000000)
    jpath = os.path.join(scratch, "job.json"); json.dump(job, open(jpath, "w"))
    prof = os.path.join(scratch, "cover.out")
    env = dict(m.ENV, VERIF_JOB=jpath, TMPDIR=scratch, GOMAXPROCS=str(e.get("gomaxprocs", 1)))
    p = subprocess.run([out, "-test.run", "^TestVerifWorker$", "-test.timeout", "0", "-test.coverprofile", prof], cwd=os.path.join(crepo, e["pkg"]), env=env,
                       stdout=subprocess.PIPE, stderr=subprocess.STDOUT, text=True)
    res = json.load(open(job["out"])) if os.path.exists(job["out"]) else {}
    print("runs", res.get("runs"), "found", [(f["check"], f["sig"]) for f in res.get("found") or []])
    rep = json.load(open(ov))["Replace"]
    blocks = {}
    for line in open(prof).read().splitlines()[1:]:
        mm = re.match(r"(.*):(\d+)\.(\d+),(\d+)\.(\d+) (\d+) (\d+)$", line)
        f, l0, c0, l1, c1, n, cnt = mm.groups()
        if "zz_verif" in f or "_test.go" in f:
            continue
        k = (f, int(l0), int(l1))
        blocks[k] = max(blocks.get(k, 0), int(cnt))
    per = {}
    for (f, l0, l1), cnt in blocks.items():
        per.setdefault(f, []).append((l0, l1, cnt))
    want = [a for a in sys.argv[4:]]
    for f in sorted(per):
        bl = sorted(per[f]); un = [(a, b) for a, b, c in bl if c == 0]
        rel = f.replace("golang.org/x/perf/", "")
        if all(c == 0 for _, _, c in bl):
            continue  # file not touched at all by this harness
        src = os.path.join(crepo, rel)
        print("== %s: %d/%d blocks covered  (source: %s)" % (rel, len(bl) - len(un), len(bl), src))
        if os.environ.get("COV_SHOW", "1") == "1":
            lines = open(src).read().splitlines()
            for a, b in un:
                print("   %d-%d: %s" % (a, b, lines[a - 1].strip()[:110] if a - 1 < len(lines) else ""))
finally:
    if os.environ.get("COV_KEEP"):
        print("kept", scratch)
    else:
        shutil.rmtree(scratch, ignore_errors=True)

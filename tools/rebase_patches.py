#!/usr/bin/env python3
"""rebase_patches.py: find seeded/benign patches that no longer apply to /repo's head, try `patch --fuzz=3`, and
when that works and the tree still builds, rewrite patch.diff against the current head (meta.json notes it)."""
import glob, json, os, shutil, subprocess, tempfile
env = dict(os.environ, GOFLAGS="-mod=mod", GOPROXY="off", GOSUMDB="off", GOTOOLCHAIN="local")
head = subprocess.run(["git", "-C", "/repo", "rev-parse", "--short", "HEAD"], capture_output=True, text=True).stdout.strip()
for d in sorted(glob.glob("/verif/seeded/C*/") + glob.glob("/verif/benign/C*/")):
    scratch = tempfile.mkdtemp(prefix="verif-rebase-")
    try:
        a, b = os.path.join(scratch, "a"), os.path.join(scratch, "b")
        subprocess.run(["rsync", "-a", "--exclude", ".git", "/repo/", a + "/"], check=True)
        if subprocess.run(["git", "apply", "--check", d + "patch.diff"], cwd=a, capture_output=True).returncode == 0:
            continue
        shutil.copytree(a, b)
        p = subprocess.run("patch -p1 --fuzz=3 --no-backup-if-mismatch < %spatch.diff" % d, shell=True, cwd=b, capture_output=True, text=True)
        ok = p.returncode == 0 and subprocess.run(["go", "build", "./..."], cwd=b, env=env, capture_output=True).returncode == 0
        meta = json.load(open(d + "meta.json"))
        if ok:
            for f in glob.glob(b + "/**/*.orig", recursive=True) + glob.glob(b + "/**/*.rej", recursive=True):
                os.remove(f)
            diff = subprocess.run(["git", "diff", "--no-index", "--no-prefix", "a", "b"], cwd=scratch, capture_output=True, text=True).stdout
            diff = diff.replace("--- a/", "--- a/").replace("+++ b/", "+++ b/")
            open(d + "patch.diff", "w").write(diff)
            chk = subprocess.run(["git", "apply", "-p1", "--check", d + "patch.diff"], cwd=a, capture_output=True, text=True)
            meta["status_note"] = (meta.get("status_note", "") + " rebased mechanically (patch --fuzz=3) onto %s" % head).strip()
            print(os.path.basename(d.rstrip("/")), "REBASED", "applies" if chk.returncode == 0 else "BUT does not apply: " + chk.stderr[:200])
        else:
            meta["status_note"] = (meta.get("status_note", "") + " does not apply to %s (conflicts with a later fix: commit)" % head).strip()
            meta["status"] = "retired" if "/seeded/" in d else meta.get("status", "")
            print(os.path.basename(d.rstrip("/")), "DOES-NOT-APPLY", p.stdout[-200:].replace("\n", " "))
        json.dump(meta, open(d + "meta.json", "w"), indent=1)
    finally:
        shutil.rmtree(scratch, ignore_errors=True)

#!/usr/bin/env python3
"""gen_seed_table.py: rewrite the tables in DESIGN.md section 12.3 (between the BEGIN/END markers) from
seeded/*/meta.json + seeded/last_full_run.txt and benign/*/meta.json + benign/last_full_run.txt."""
import glob, json, os, re
V = "/verif"
def results(path):
    out = {}
    if os.path.exists(path):
        for l in open(path):
            m = re.match(r"(C\d\d-\w+) (C\d\d) (\w[\w-]*)\s*(\S*)\s*(.*)", l)
            if m:
                out[m.group(1)] = (m.group(3), m.group(5).strip())
    return out
def clean(s, n):
    return re.sub(r"\s+", " ", (s or "").replace("|", "/"))[:n]
res = results(V + "/seeded/last_full_run.txt")
rows = ["| change | what it does | needs | quick check |", "|---|---|---|---|"]
counts = {}
for d in sorted(glob.glob(V + "/seeded/C*/")):
    name = os.path.basename(d.rstrip("/"))
    m = json.load(open(d + "meta.json"))
    verdict, sigs = res.get(name, ("(not run)", ""))
    if m.get("status") == "retired":
        verdict, sigs = "RETIRED", "made benign by a later fix: commit"
    sg = "; ".join(sorted({re.sub(r" count=\d+", "", x).replace("check=", "").replace("sig=", "") for x in sigs.split("; ") if x})[:3])
    if verdict in ("MISSED", "INFRA") and m.get("status_note"):
        sg = m["status_note"][:160]
    counts[verdict] = counts.get(verdict, 0) + 1
    rows.append("| %s | %s | %s | %s%s |" % (name, clean(m.get("summary"), 150), clean(m.get("needs"), 110), verdict, (": " + sg) if sg else ""))
bres = results(V + "/benign/last_full_run.txt")
brows = ["| change | what it does | quick check |", "|---|---|---|"]
bcounts = {}
for d in sorted(glob.glob(V + "/benign/C*/")):
    name = os.path.basename(d.rstrip("/"))
    m = json.load(open(d + "meta.json"))
    verdict, _ = bres.get(name, ("(not run)", ""))
    bcounts[verdict] = bcounts.get(verdict, 0) + 1
    brows.append("| %s | %s | %s |" % (name, clean(m.get("summary"), 260), verdict))
s = open(V + "/DESIGN.md").read()
def put(s, tag, body):
    b, e = "<!-- BEGIN %s -->" % tag, "<!-- END %s -->" % tag
    i, j = s.index(b), s.index(e)
    return s[:i + len(b)] + "\n" + body + "\n" + s[j:]
s = put(s, "SEEDED-TABLE", "Totals of the last full run: " + ", ".join("%d %s" % (v, k) for k, v in sorted(counts.items())) + ".\n\n" + "\n".join(rows))
s = put(s, "BENIGN-TABLE", "Totals of the last full run: " + ", ".join("%d %s" % (v, k) for k, v in sorted(bcounts.items())) + ".\n\n" + "\n".join(brows))
open(V + "/DESIGN.md", "w").write(s)
print(counts, bcounts)

#!/usr/bin/env python3
"""Regenerates /verif/MANIFEST.json from the tables below (claimed list passed on the command line or CLAIMED)."""
import json, sys, subprocess
CLAIMED = sys.argv[1:] or open('/verif/tools/claimed.txt').read().split()
NA = {
"C03":"Pure function of one numeric token (bytesconv.ParseFloat/Atoi and the integer fast path): no state, schedule, clock, I/O or fault for a simulator to own; deciding it is a differential input sweep, not simulation.",
"C04":"Pure function of (value, unit); the only shared state (tidyCache) memoises a pure function and is exercised under schedules in C15; sweeping value x unit grammar is input generation, not simulation.",
"C05":"Pure functions of a byte string and a configuration map (Name.Parts/Base, extractors); no schedule, fault or history to act on.",
"C06":"Filter.Match is a pure function of (expression, result); Apply mutates only its argument; no state survives a call.",
"C07":"Tokenizer and parsers are pure functions of the expression text; no schedule, fault, clock or history.",
"C10":"Pure function of (value, unit class); threshold tables are immutable package data.",
"C11":"Pure mathematics over two slices; the memo table is local to one call.",
"C12":"Pure numerical functions; no state, schedule or I/O.",
"C13":"Relational contracts of pure functions of (sample, confidence, threshold); medianCache memoises a pure function and its concurrent population is covered under C15's schedules.",
"C14":"A function from (files, flags) to tables; deciding it needs an independent recomputation over generated inputs with no schedule, fault or history in the statement.",
"C16":"texttab.Table.Format, NewKeyHeader and the renderers are pure functions of table contents.",
"C17":"Collection accumulates rows in input order and computes pure statistics; no schedule, fault or cross-call state beyond append-only bookkeeping.",
}
PENDING = "Simulation check designed (DESIGN.md section 7) but not yet built/validated in this session; not claimed."
CHECKS = {
"C01": dict(engine="streamsim", cat="exploration", ref="7/C01",
  text="Seeded exploration: histories of API-built/edited and parsed records are driven through the real Writer into a simulated sink (write errors, short writes) and read back by the real Reader from a simulated source (chunking, zero reads, data+EOF); read-back stream compared with an independent shadow model of the API calls. Sampling, not proof.",
  note="Trusts the reference model (DESIGN.md A.1) and the stated writer domain; samples histories up to 40 records; rebuilds from the current tree via go test -overlay.",
  tech="deterministic simulation: seeded history + stream-fault exploration against a reference model, tape minimisation and exact replay"),
"C02": dict(engine="streamsim", cat="exploration", ref="7/C02",
  text="Seeded exploration: file histories through one reused Reader (Reset, tool labels, clones held, abandoned files) from a simulated source with chunking down to 1 byte, zero reads, data+EOF, read errors and truncation at drawn offsets, owned intern-map eviction order, and benchfmt.Files over real temp files; every record compared with an independent line-by-line reference parser.",
  note="Trusts the reference parser written from the format text (DESIGN.md A.1); number syntax and unit normalisation are compared only as far as strconv agrees.",
  tech="deterministic simulation: seeded file-history + read-fault exploration against a reference parser, owned map order, tape minimisation and exact replay"),
"C08": dict(engine="histsim", cat="exploration", ref="7/C08",
  text="Seeded exploration of operation histories on shared ProjectionParser/Projection objects (all parse orders, growing key universe) against an executable reference model of projected tuples.",
  note="No threads/clock/I-O exist for this property; what is simulated is the call history. Trusts the reference extractor (DESIGN.md A.3).",
  tech="deterministic simulation (degenerate: seeded history exploration of a stateful object against a reference model, minimised replayable tapes)"),
"C09": dict(engine="histsim", cat="exploration", ref="7/C09",
  text="Seeded exploration of observation histories; Key.Less checked for strict-total-order axioms on all pairs/triples and against a reference order model; SortKeys checked over drawn permutations.",
  note="Same engine as C08; numeric order restricted to unambiguous numerals; ties among equal spellings not prescribed.",
  tech="deterministic simulation (degenerate: seeded history exploration against a reference order model, minimised replayable tapes)"),
"C15": dict(engine="schedsim", cat="exploration", ref="7/C15",
  text="The real benchstat entry point runs in-process under a seeded scheduler that decides every interleaving of its cell/column goroutines at instrumented yield points, with owned hash-map iteration order, GOMAXPROCS 1/2/4/16 and warm/cold process-wide caches; output must be byte-identical to a cold sequential reference; line permutations must not change cell contents. Separate -race lane (runtime monitoring) for the data-race clause.",
  note="Yield points are inserted by an AST instrumenter at go/chan/sync operations and shared-state writes; interleavings at finer grain are not explored by the scheduler (the race lane covers them only as observed executions).",
  tech="deterministic simulation: seeded goroutine scheduler over testing/synctest quiescence + owned map order, metamorphic output equality, tape minimisation and exact replay; race detector lane"),
"C18": dict(engine="seriessim", cat="exploration", ref="7/C18",
  text="Seeded exploration of insertion orders and owned hash-map iteration orders of benchseries.Builder against a reference model computed from the result set; bootstrap sanity and reproducibility; date normalisation on the workload's timestamps.",
  note="Generator maintains the input invariants of DESIGN.md A.4; confidence >= 0.5 and N >= 50 resamples.",
  tech="deterministic simulation (seeded insertion-order and map-iteration-order exploration against a reference model, minimised replayable tapes)"),
"C19": dict(engine="storesim", cat="exploration", ref="7/C19",
  text="Real storage.Client, app handlers, db.DB and SQLite run in one process over a simulated transport, file store and clock under a seeded scheduler; upload/query histories compared with a reference model of stored records and query semantics.",
  note="sqlite3 dialect only; fault-free lanes (faults are C20); reference reader/coalescing rule per DESIGN.md A.2.",
  tech="deterministic simulation: in-process client/server over simulated transport, store and clock with a seeded scheduler, reference-model oracle"),
"C20": dict(engine="storesim", cat="fault_enumeration", ref="7/C20",
  text="As C19 with fault injection: invalid content, protocol violations, client abort, body cut at any byte, file create/write/close errors (sticky and single-shot, two file-store personalities), auth errors, clock jumps, concurrent uploads on a shared database; thorough tier enumerates every single-fault position of seeded scenarios.",
  note="Scenarios and schedules sampled; positions within a scenario complete; SQLite shared-cache locking stands in for a server database.",
  tech="deterministic simulation with fault injection: seeded scheduler + enumerated single-fault positions, all-or-nothing and ID-history oracles, exact replay"),
}
ENG = {"streamsim":"benchfmt reader/writer over simulated streams","histsim":"projection/key operation histories","schedsim":"benchstat under a seeded goroutine scheduler",
       "seriessim":"benchseries insertion/map-order histories","storesim":"storage client/server over simulated transport, file store, SQL seam and clock"}
m = {"version":1,
 "setup_cmd":"./check setup",
 "hooks":{"guard":"verif","enable":"no source commits: kernel, harness and instrumented copies are injected at build time by /verif/check (go1.26.8 test -tags verif -overlay)","baseline_off_cmd":"cd /repo && GOFLAGS=-mod=mod GOPROXY=off go test -vet=off -count=1 -timeout 25m ./...","source_commits":[],"add_only":True},
 "engines":[{"name":e,"path":"/verif/inject","serves_properties":[p for p in CLAIMED if CHECKS[p]["engine"]==e],"kind_free_text":ENG[e]} for e in sorted(set(CHECKS[p]["engine"] for p in CLAIMED))],
 "checks":[{"property_id":p,"quick_cmd":"./check %s quick"%p,"thorough_cmd":"./check %s thorough"%p,"evidence_file":"/verif/evidence/%s.json"%p,
            "replay_cmd_template":"./check replay {path}","engine":CHECKS[p]["engine"],
            "level_claimed":{"category":CHECKS[p]["cat"],"text":CHECKS[p]["text"],"design_ref":"DESIGN.md section "+CHECKS[p]["ref"]},
            "level_note":CHECKS[p]["note"],"technique":CHECKS[p]["tech"]} for p in CLAIMED],
 "notes":"Deterministic simulation with fault injection; see DESIGN.md. known_findings.txt lists recorded/fixed defects; seeded/ holds confirmed property-breaking changes used for sensitivity testing.",
 "not_applicable":[{"property_id":k,"reason":v} for k,v in sorted(NA.items())]+[{"property_id":k,"reason":PENDING} for k in sorted(CHECKS) if k not in CLAIMED]}
json.dump(m,open("/verif/MANIFEST.json","w"),indent=1)
print("claimed:",CLAIMED)

#!/usr/bin/env python3
"""run_seeded.py [ID-or-dir ...]: apply each seeded change to /repo, run the property's quick check, undo it.
Prints one line per change: CAUGHT (exit 1 with VIOLATION) / MISSED (exit 0) / INFRA (exit 2)."""
import json, os, subprocess, sys, glob, time
sel = sys.argv[1:]
tier = os.environ.get("SEED_TIER", "quick")
dirs = sorted(glob.glob("/verif/seeded/*/"))
rows = []
for d in dirs:
    name = os.path.basename(d.rstrip("/"))
    if sel and not any(name.startswith(s) for s in sel):
        continue
    meta = json.load(open(d + "meta.json"))
    prop = meta.get("breaks") or meta.get("property")
    if meta.get("status") == "retired":
        print(name, prop, "RETIRED (no longer breaks the property on the current tree; see meta.json)")
        continue
    st = subprocess.run(["git", "-C", "/repo", "status", "--porcelain"], capture_output=True, text=True).stdout.strip()
    if st:
        print("refusing: /repo is dirty:\n" + st); sys.exit(2)
    p = subprocess.run(["git", "-C", "/repo", "apply", d + "patch.diff"], capture_output=True, text=True)
    if p.returncode != 0:
        print(name, prop, "PATCH-DOES-NOT-APPLY", p.stderr.strip()[:200]); continue
    t0 = time.time()
    try:
        q = subprocess.run(["/verif/check", prop, tier], capture_output=True, text=True, cwd="/verif",
                           env=dict(os.environ, VERIF_EVIDENCE_DIR="/tmp/verif-seeded-evidence"))
    finally:
        subprocess.run(["git", "-C", "/repo", "checkout", "--", "."], check=True)
    vio = [l for l in q.stdout.splitlines() if l.startswith("VIOLATION")]
    sigs = [l.strip() for l in q.stdout.splitlines() if l.strip().startswith("check=")]
    verdict = {0: "MISSED", 1: "CAUGHT", 2: "INFRA"}.get(q.returncode, "rc=%d" % q.returncode)
    print(name, prop, verdict, "%.0fs" % (time.time() - t0), "; ".join(sigs)[:300], flush=True)
    if q.returncode == 2:
        print(q.stdout[-1500:])
    rows.append(dict(seed=name, property=prop, verdict=verdict, sigs=sigs, tier=tier))
    # replay files of seeded runs are not findings on the real tree
    for l in vio:
        path = l.split("replay=")[1].split()[0]
        if os.path.exists(path):
            os.remove(path)
json.dump(rows, open("/verif/seeded/last_run.json", "w"), indent=1)

#!/usr/bin/env python3
"""run_seeded.py [--benign] [-j N] [ID-or-dir ...]: apply each seeded change to a scratch copy of /repo (never /repo itself),
run the property's quick check against that copy (VERIF_REPO), remove the copy.
Prints one line per change: CAUGHT (exit 1 with VIOLATION) / MISSED (exit 0) / INFRA (exit 2).
With --benign the changes come from /verif/benign/ (changes under which the property still holds) and the
verdicts read QUIET (exit 0) / ALARM (exit 1)."""
import json, os, subprocess, sys, glob, time, shutil, tempfile
from concurrent.futures import ThreadPoolExecutor
args = sys.argv[1:]
benign = bool(args) and args[0] == "--benign"
if benign:
    args = args[1:]
jobs = 1
if args and args[0] == "-j":
    jobs = int(args[1]); args = args[2:]
sel = args
tier = os.environ.get("SEED_TIER", "quick")
dirs = sorted(glob.glob("/verif/benign/*/" if benign else "/verif/seeded/*/"))
ncpu = os.cpu_count() or 16
workers = os.environ.get("VERIF_WORKERS") or str(max(4, ncpu // jobs))


def one(d):
    name = os.path.basename(d.rstrip("/"))
    meta = json.load(open(d + "meta.json"))
    prop = os.environ.get("SEED_PROP_OVERRIDE") or meta.get("breaks") or meta.get("property")  # override: run another property's check against the change
    if meta.get("status") == "retired":
        return dict(seed=name, property=prop, verdict="RETIRED", sigs=[], line="%s %s RETIRED (no longer breaks the property on the current tree; see meta.json)" % (name, prop))
    scratch = tempfile.mkdtemp(prefix="verif-seedrepo-")
    try:
        copy = os.path.join(scratch, "repo")
        subprocess.run(["rsync", "-a", "--exclude", ".git", "/repo/", copy + "/"], check=True)
        p = subprocess.run(["git", "apply", d + "patch.diff"], capture_output=True, text=True, cwd=copy)
        if p.returncode != 0:
            return dict(seed=name, property=prop, verdict="PATCH-DOES-NOT-APPLY", sigs=[], line="%s %s PATCH-DOES-NOT-APPLY %s" % (name, prop, p.stderr.strip()[:200]))
        t0 = time.time()
        rdir = os.path.join(scratch, "replays")
        q = subprocess.run(["/verif/check", prop, tier], capture_output=True, text=True, cwd="/verif",
                           env=dict(os.environ, VERIF_REPO=copy, VERIF_WORKERS=workers, VERIF_EVIDENCE_DIR=os.path.join(scratch, "evidence"), VERIF_REPLAY_DIR=rdir))
        sigs = [l.strip() for l in q.stdout.splitlines() if l.strip().startswith("check=")]
        verdict = ({0: "QUIET", 1: "ALARM", 2: "INFRA"} if benign else {0: "MISSED", 1: "CAUGHT", 2: "INFRA"}).get(q.returncode, "rc=%d" % q.returncode)
        line = "%s %s %s %.0fs %s" % (name, prop, verdict, time.time() - t0, "; ".join(sigs)[:300])
        if q.returncode == 2 or (benign and q.returncode == 1):
            line += "\n" + q.stdout[-2500:]
        return dict(seed=name, property=prop, verdict=verdict, sigs=sigs, tier=tier, line=line)
    finally:
        shutil.rmtree(scratch, ignore_errors=True)


todo = [d for d in dirs if not sel or any(os.path.basename(d.rstrip("/")).startswith(s) for s in sel)]
rows = []
with ThreadPoolExecutor(max_workers=jobs) as ex:
    for row in ex.map(one, todo):
        print(row.pop("line"), flush=True)
        rows.append(row)
if not os.environ.get("SEED_PROP_OVERRIDE"):
    json.dump(rows, open("/verif/benign/last_run.json" if benign else "/verif/seeded/last_run.json", "w"), indent=1)

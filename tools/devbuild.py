#!/usr/bin/env python3
"""devbuild.py <engine> <outdir>: build an engine binary for manual experiments (profiling); prints its path."""
import sys, os, importlib.machinery, importlib.util
loader = importlib.machinery.SourceFileLoader("check", "/verif/check")
spec = importlib.util.spec_from_loader("check", loader); m = importlib.util.module_from_spec(spec); loader.exec_module(m)
os.makedirs(sys.argv[2], exist_ok=True)
race = len(sys.argv) > 3 and sys.argv[3] == "race"
print(m.build_engine(sys.argv[1], sys.argv[2], race=race)[0])

#!/usr/bin/env python3
"""verify_seed.py <worktree> <ID> : confirm each seeded change (suite passes with it, demo fails with it and passes
without it) in the scratch worktree, then copy it to /verif/seeded/<ID>-m<i>/ with the verification recorded."""
import json, os, re, shutil, subprocess, sys
wt, pid = sys.argv[1], sys.argv[2]
env = dict(os.environ, GOFLAGS="-mod=mod", GOPROXY="off", GOSUMDB="off", GOTOOLCHAIN="local")
def sh(cmd, **kw):
    return subprocess.run(cmd, shell=True, cwd=wt, env=env, stdout=subprocess.PIPE, stderr=subprocess.STDOUT, text=True, **kw)
sh("git checkout -q -- . && git checkout -q --detach main")
head = sh("git rev-parse --short HEAD").stdout.strip()
for m in sorted(os.listdir(os.path.join(wt, "seeded"))):
    d = os.path.join(wt, "seeded", m)
    if not os.path.isfile(os.path.join(d, "patch.diff")):
        continue
    meta = json.load(open(os.path.join(d, "meta.json")))
    demo = meta["demo"]
    mm = re.search(r"cp seeded/%s/(\S+) (\S+)" % m, demo)
    src, dst = mm.group(1), mm.group(2)
    if dst.endswith("/"):
        dst += src
    if dst.endswith(".txt"):
        dst = dst[:-4]
    pat = re.search(r"-run (\S+)", demo).group(1)
    pkg = re.search(r"(\./\S+)", demo[demo.index("go test"):]).group(1)
    racef = "-race " if " -race " in demo else ""
    res = {"repo_head": head}
    p = sh("git apply seeded/%s/patch.diff" % m)
    if p.returncode != 0:
        res["error"] = "patch does not apply to %s: %s" % (head, p.stdout[-500:])
        print(pid, m, res); continue
    p = sh("go build ./... && go test -vet=off -count=1 ./... 2>&1 | grep -v '^ok\\|no test files' | head -20")
    res["suite_with_patch"] = "pass" if p.stdout.strip() == "" else "FAIL: " + p.stdout[-800:]
    shutil.copy(os.path.join(d, src), os.path.join(wt, dst))
    p = sh("go test -vet=off -count=1 %s-run '%s' %s" % (racef, pat, pkg))
    res["demo_with_patch"] = "fails" if p.returncode != 0 else "PASSES (unexpected)"
    res["demo_with_patch_tail"] = p.stdout[-600:]
    os.remove(os.path.join(wt, dst))
    sh("git checkout -q -- .")
    shutil.copy(os.path.join(d, src), os.path.join(wt, dst))
    p = sh("go test -vet=off -count=1 %s-run '%s' %s" % (racef, pat, pkg))
    res["demo_without_patch"] = "passes" if p.returncode == 0 else "FAILS (unexpected): " + p.stdout[-600:]
    os.remove(os.path.join(wt, dst))
    ok = res["suite_with_patch"] == "pass" and res["demo_with_patch"] == "fails" and res["demo_without_patch"] == "passes"
    res["confirmed"] = ok
    print(pid, m, "CONFIRMED" if ok else "REJECTED", json.dumps({k: v for k, v in res.items() if k != "demo_with_patch_tail"}))
    if ok:
        out = os.path.join("/verif/seeded", "%s-%s" % (pid, m))
        os.makedirs(out, exist_ok=True)
        shutil.copy(os.path.join(d, "patch.diff"), out)
        shutil.copy(os.path.join(d, src), os.path.join(out, src if src.endswith(".txt") else src + ".txt"))
        meta["breaks"] = pid
        meta["demo_dest"] = dst
        meta["demo_run"] = "go test -vet=off -count=1 %s-run '%s' %s" % (racef, pat, pkg)
        meta["verified_by_me"] = res
        json.dump(meta, open(os.path.join(out, "meta.json"), "w"), indent=1)

#!/usr/bin/env python3
"""reverify_seeds.py <ID> : re-confirm every /verif/seeded/<ID>-* change against the current /repo HEAD in the scratch worktree /tmp/wt-<ID>
(suite passes with it, demo fails with it and passes without it); records the outcome in meta.json ("verified_by_me")."""
import json, os, glob, shutil, subprocess, sys
pid = sys.argv[1]
wt = "/tmp/wt-" + pid
env = dict(os.environ, GOFLAGS="-mod=mod", GOPROXY="off", GOSUMDB="off", GOTOOLCHAIN="local")
def sh(cmd):
    return subprocess.run(cmd, shell=True, cwd=wt, env=env, stdout=subprocess.PIPE, stderr=subprocess.STDOUT, text=True)
if not os.path.isdir(wt):
    subprocess.run(["git", "-C", "/repo", "worktree", "add", "-q", "--detach", wt, "main"], check=True)
sh("git checkout -q -- . && git clean -fdq && git checkout -q --detach main")
head = sh("git rev-parse --short HEAD").stdout.strip()
for d in sorted(glob.glob("/verif/seeded/%s-*/" % pid)):
    name = os.path.basename(d.rstrip("/"))
    meta = json.load(open(d + "meta.json"))
    demo_src = [f for f in os.listdir(d) if f.endswith(".go.txt") or (f.endswith(".go") and "demo" in f)]
    res = {"repo_head": head}
    p = sh("git apply %spatch.diff" % d)
    if p.returncode != 0:
        res["error"] = "patch does not apply: " + p.stdout[-300:]
        print(name, "PATCH-DOES-NOT-APPLY"); meta["verified_by_me"] = res; json.dump(meta, open(d + "meta.json", "w"), indent=1); continue
    p = sh("go build ./... && go test -vet=off -count=1 ./... 2>&1 | grep -v '^ok\\|no test files' | head -20")
    res["suite_with_patch"] = "pass" if p.stdout.strip() == "" else "FAIL: " + p.stdout[-500:]
    dst = os.path.join(wt, meta["demo_dest"])
    shutil.copy(d + demo_src[0], dst)
    p = sh(meta["demo_run"])
    res["demo_with_patch"] = "fails" if p.returncode != 0 else "PASSES (unexpected)"
    os.remove(dst); sh("git checkout -q -- .")
    shutil.copy(d + demo_src[0], dst)
    p = sh(meta["demo_run"])
    res["demo_without_patch"] = "passes" if p.returncode == 0 else "FAILS (unexpected): " + p.stdout[-300:]
    os.remove(dst)
    res["confirmed"] = res["suite_with_patch"] == "pass" and res["demo_with_patch"] == "fails" and res["demo_without_patch"] == "passes"
    meta["verified_by_me"] = res
    json.dump(meta, open(d + "meta.json", "w"), indent=1)
    print(name, "CONFIRMED" if res["confirmed"] else "REJECTED", json.dumps(res)[:300], flush=True)
